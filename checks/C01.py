"""C01 — memory safety and error containment: (i) inline VM opcodes as sliced case bodies of sexp_apply."""
import os, subprocess, sys
from vf import Query, VERIF, REPO
from common import R_ASSUME

OPS = ['SLOTN_REF', 'SLOTN_SET', 'MAKE_VECTOR', 'VECTOR_REF', 'VECTOR_SET', 'VECTOR_LENGTH', 'BYTES_REF', 'BYTES_SET', 'BYTES_LENGTH', 'STRING_REF', 'STRING_LENGTH',
       'STRING_CURSOR_NEXT', 'STRING_CURSOR_PREV', 'STRING_CURSOR_END', 'CAR', 'CDR', 'SET_CAR', 'SET_CDR', 'CHAR2INT', 'INT2CHAR',
       'ADD', 'SUB', 'MUL', 'QUOTIENT', 'REMAINDER', 'LT', 'LE', 'EQN']
UNITS = ['work:vm_slices.c', 'kit:kitfull.c', 'repo:bignum.c', 'repo:eval.c', 'kit:env.c', 'kit:exc_models.c', 'kit:libc_models.c']
UD = {'KIT_REAL_SEXP': 1}
EXC = ['sexp_alloc_tagged_aux', 'sexp_type_exception', 'sexp_xtype_exception', 'sexp_range_exception', 'sexp_user_exception', 'sexp_user_exception_ls']
ARITH = ['sexp_add', 'sexp_sub', 'sexp_mul', 'sexp_quotient', 'sexp_remainder', 'sexp_compare']
K = {'none': 0, 'vector': 1, 'bytes': 2, 'string': 3, 'pair': 4, 'fixnum': 5, 'cursor': 6, 'char': 7, 'false': 8, 'immvector': 9, 'flonum': 10, 'octet': 11, 'fixc': 12, 'rectype': 13, 'record': 14, 'otherrec': 15, 'smallnat': 16}
FUNCTIONS = ['sexp_apply: case SEXP_OP_' + o for o in OPS] + ['sexp_string_utf8_ref', 'sexp_utf8_initial_byte_count', 'sexp_string_utf8_prev', 'sexp_fixnum_to_bignum']


def prepare(run, tier):
    out = os.path.join(run.work, 'vm_slices.c')
    r = subprocess.run([sys.executable, os.path.join(VERIF, 'gen', 'vm_slice.py'), os.path.join(REPO, 'vm.c'), out] + OPS,
                       capture_output=True, text=True)
    if r.returncode != 0 or 'not sliceable' in r.stdout:
        raise RuntimeError('vm_slice failed: ' + r.stdout + r.stderr)
    run.extra_assumptions.append('VM opcodes are checked as sliced case bodies: the verbatim text of each `case` of sexp_apply in the current vm.c, '
                                 'compiled inside a copy of vm.c (same macros); emitted text checked to be a line-for-line subsequence of vm.c')


def queries(tier):
    qs = []
    cap = 300 if tier == 'quick' else 1800

    def q(opname, opc, v1, v2='none', v3='none', arith=False, **kw):
        name = '%s[%s]' % (opname, ','.join(x for x in (v1, v2, v3) if x != 'none'))
        defs = {'OPC': opc, 'V1': K[v1], 'V2': K[v2], 'V3': K[v3]}
        qs.append(Query(name=name, harness='C01_vm.c', units=UNITS, unit_defs=UD, defs=defs, unwind=8,
                        unwindset={'sexp_string_utf8_prev.0': 8, 'wide_of.0': 6},
                        remove_bodies=EXC + (ARITH if arith else []), cap=cap, backends=['cadical', 'minisat', 'kissat'],
                        functions=['sexp_apply: case SEXP_OP_' + opname], **kw))
    # containers: right kind with a free index, plus ill-typed operands
    q('VECTOR_REF', 1, 'vector', 'fixnum'); q('VECTOR_REF', 1, 'vector', 'false'); q('VECTOR_REF', 1, 'bytes', 'fixnum'); q('VECTOR_REF', 1, 'fixnum', 'fixnum')
    q('VECTOR_SET', 2, 'vector', 'fixnum', 'flonum'); q('VECTOR_SET', 2, 'immvector', 'fixnum', 'flonum'); q('VECTOR_SET', 2, 'pair', 'fixnum', 'flonum')
    q('VECTOR_LENGTH', 3, 'vector'); q('VECTOR_LENGTH', 3, 'string')
    q('BYTES_REF', 4, 'bytes', 'fixnum'); q('BYTES_REF', 4, 'string', 'fixnum'); q('BYTES_REF', 4, 'bytes', 'char')
    q('BYTES_SET', 5, 'bytes', 'fixnum', 'octet'); q('BYTES_SET', 5, 'bytes', 'fixnum', 'fixnum'); q('BYTES_SET', 5, 'vector', 'fixnum', 'octet')
    q('BYTES_LENGTH', 6, 'bytes'); q('BYTES_LENGTH', 6, 'pair')
    q('STRING_REF', 7, 'string', 'cursor'); q('STRING_REF', 7, 'string', 'fixnum'); q('STRING_REF', 7, 'bytes', 'cursor')
    q('STRING_CURSOR_NEXT', 8, 'string', 'cursor'); q('STRING_CURSOR_NEXT', 8, 'vector', 'cursor'); q('STRING_CURSOR_NEXT', 8, 'string', 'false')
    q('STRING_CURSOR_PREV', 9, 'string', 'cursor'); q('STRING_CURSOR_PREV', 9, 'string', 'fixnum')
    for opc, nm in ((10, 'CAR'), (11, 'CDR')):
        q(nm, opc, 'pair'); q(nm, opc, 'vector'); q(nm, opc, 'fixnum')
    for opc, nm in ((12, 'SET_CAR'), (13, 'SET_CDR')):
        q(nm, opc, 'pair', 'flonum'); q(nm, opc, 'string', 'flonum')
    q('CHAR2INT', 14, 'char'); q('CHAR2INT', 14, 'fixnum'); q('CHAR2INT', 14, 'string')
    q('INT2CHAR', 15, 'fixnum'); q('INT2CHAR', 15, 'char')
    # records (define-record-type accessors): type given at run time, free field index
    q('SLOTN_REF', 16, 'rectype', 'record', 'fixnum'); q('SLOTN_REF', 16, 'rectype', 'otherrec', 'fixnum'); q('SLOTN_REF', 16, 'rectype', 'pair', 'fixnum'); q('SLOTN_REF', 16, 'vector', 'record', 'fixnum')
    q('SLOTN_SET', 17, 'rectype', 'record', 'fixnum'); q('SLOTN_SET', 17, 'rectype', 'otherrec', 'fixnum')
    q('MAKE_VECTOR', 18, 'smallnat', 'flonum'); q('MAKE_VECTOR', 18, 'false', 'flonum')
    for opc, nm in ((20, 'ADD'), (21, 'SUB'), (25, 'LT'), (26, 'LE'), (27, 'EQN')):
        q(nm, opc, 'fixnum', 'fixnum', arith=True)
    # division: free dividend, divisor from the D-const set (a free 62-bit divisor does not decide: R7)
    divisors = [0, 1, -1, 2, -2, 3, 10, -7, (1 << 62) - 1, -(1 << 62)] if tier != 'quick' else [0, 1, -1, 2, 10, -7, -(1 << 62)]
    for opc, nm in ((23, 'QUOTIENT'), (24, 'REMAINDER')):
        for d in divisors:
            dv = '(%dL)' % d if d > -(1 << 62) else '(-%dL-1)' % ((1 << 62) - 1)
            qs.append(Query(name='%s[fixnum,divisor=%d]' % (nm, d), harness='C01_vm.c', units=UNITS, unit_defs=UD,
                            defs={'OPC': opc, 'V1': K['fixnum'], 'V2': K['fixc'], 'V3': 0, 'FIXC': dv}, unwind=8,
                            unwindset={'wide_of.0': 6}, remove_bodies=EXC + ARITH, cap=cap, backends=['cadical', 'minisat', 'kissat'],
                            functions=['sexp_apply: case SEXP_OP_' + nm]))
    return qs


def bounds(tier):
    return {'granularity': 'one instruction from an arbitrary operand state (operand kinds enumerated per query; indices, cursors, chars, fixnums, bytes free)',
            'containers': 'vector of 2, bytevector of 3 free bytes, string = 3-byte window at a free offset in a free 5-byte store',
            'stack': '12-word stack object, 4 sentinel words below the operands'}


ASSUMPTIONS = R_ASSUME + ['exception constructors and sexp_alloc_tagged_aux modelled (harness/exc_models.c, env.c)',
                          'fast-path arithmetic queries: generic sexp_add/sub/mul/quotient/remainder/compare replaced by recording models (their exactness is checked by C04)']
OUTSIDE = ['sequences of more than one instruction; the call protocol (make_call/CALL/TAIL_CALL/RET), stack growth, the analyzer and macro expander',
           'MUL fast path (64x64-bit symbolic product: R7), opcodes not listed, foreign primitives beyond those checked under C12/C15/C17/C18',
           'generated bytevector accessors (lib/scheme/bytevector.stub) and reader kernels on arbitrary byte buffers (not encoded in this tier)',
           'the ~430 R7RS procedures implemented in Scheme']
