"""C02 — GC never reclaims reachable data: (B) rooting discipline of real C functions under a collection at every allocation."""
from vf import Query
from common import R_ASSUME

UNITS = ['kit:kitfull.c', 'repo:eval.c', 'repo:bignum.c', 'repo:lib/srfi/151/bit.c', 'repo:lib/srfi/95/qsort.c',
         'repo:lib/srfi/69/hash.c|sexp_string_hash=sexp_string_hash_srfi69', 'kit:env.c', 'kit:exc_models.c', 'kit:libc_models.c']
UD = {'KIT_REAL_SEXP': 1, 'KIT_GC_MODEL': 1}
EXC = ['sexp_alloc_tagged_aux', 'sexp_type_exception', 'sexp_xtype_exception', 'sexp_range_exception', 'sexp_user_exception', 'sexp_user_exception_ls']
CUTS = ['sexp_warn', 'sexp_eval.*', 'sexp_analyze.*', 'analyze.*', 'sexp_compile.*', 'sexp_load.*', 'sexp_ratio_[a-z_]*', 'sexp_complex_[a-z_]*', 'sexp_make_ratio', 'sexp_make_complex', 'sexp_double_to_bignum', 'sexp_double_to_ratio[_2]*',
        'sexp_bignum_to_double', 'sexp_inexact_to_exact', 'sexp_bignum_mul', 'sexp_bignum_quot_rem', 'sexp_bignum_expt', 'sexp_bignum_sqrt',
        'sexp_mul', 'sexp_div', 'sexp_quotient', 'sexp_remainder', 'sexp_apply', 'sexp_write_to_string', 'sexp_eval_string', 'sexp_print_exception_op']
FNS = [(1, 'sexp_append2_op', ['sexp_append2_op', 'sexp_reverse_op', 'sexp_cons_op']), (2, 'sexp_list_to_vector_op', ['sexp_list_to_vector_op', 'sexp_make_vector_op']),
       (3, 'sexp_bit_and[big1,big1]', ['sexp_bit_and', 'sexp_bignum_bit_op', 'sexp_bignum_normalize']), (4, 'sexp_add[fixnum overflow]', ['sexp_add', 'sexp_fixnum_to_bignum', 'sexp_bignum_add_fixnum']),
       (5, 'sexp_bignum_add_fixnum', ['sexp_bignum_add_fixnum', 'sexp_copy_bignum', 'sexp_bignum_fxadd']), (6, 'sexp_sort_x[list of 3]', ['sexp_sort_x', 'sexp_merge_sort', 'sexp_list_to_vector_op']),
       (7, 'sexp_hash_table_cell[create]', ['sexp_hash_table_cell', 'sexp_get_bucket', 'sexp_scan_bucket', 'sexp_regrow_hash_table']),
       (8, 'sexp_string_concatenate_op', ['sexp_string_concatenate_op', 'sexp_make_string_op', 'sexp_make_bytes_op']),
       (9, 'sexp_arithmetic_shift[fixnum << 70]', ['sexp_arithmetic_shift', 'sexp_fixnum_to_bignum']), (10, 'sexp_bit_xor[fixnum,big2]', ['sexp_bit_xor', 'sexp_bignum_bit_op']),
       (11, 'sexp_substring_op', ['sexp_substring_op', 'sexp_make_string_op']), (12, 'sexp_string_utf8_index_set[width change]', ['sexp_string_utf8_index_set', 'sexp_string_utf8_set', 'sexp_make_bytes_op']),
       (13, 'sexp_make_ephemeron_op', ['sexp_make_ephemeron_op']), (14, 'sexp_hash_table_cell[create + regrow]', ['sexp_hash_table_cell', 'sexp_regrow_hash_table', 'sexp_get_bucket'])]


def queries(tier):
    qs = []
    for fn, nm, funcs in FNS:
        qs.append(Query(name='rooting[%s]' % nm, harness='C02_rooting.c', units=UNITS, unit_defs=UD, defs={'FN': fn}, unwind=12,
                        unwindset={'kit_gc_referenced.0': 9, 'kit_gc_referenced.1': 5, 'kit_gc_referenced.2': 13, 'kit_gc_referenced.3': 11, 'kit_gc_referenced.4': 7},
                        remove_bodies=EXC, cuts=CUTS, cap=600, backends=['cadical', 'minisat', 'kissat'], functions=funcs, slow=True))
    return qs


BOUNDS = {'schedule': 'at every allocation: collect or not (free) and which tracked object is examined (free): all collection schedules of the call',
          'inputs': 'lists of 2-3 elements, 1-word bignums with free words, small strings; <= 10 allocations per call'}
ASSUMPTIONS = R_ASSUME + ['collection model (env.c KIT_GC_MODEL): one tracked object with in-degree 0 (no root, no saves entry, no slot of a live tracked object) may be freed at each allocation: '
                          'a sound under-approximation of the real collector, hence no false alarms; arguments are rooted by the harness (caller contract)',
                          'the real collector core itself is checked separately (C10: sweep/alloc step, C16: mark + weak pass + sweep)']
OUTSIDE = ['C functions not listed; Scheme-level code; the VM\'s own publication of `top` before allocating opcodes; conservative-GC builds', 'more than 10 allocations per call']
