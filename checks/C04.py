"""C04 — exact arithmetic kernels (bignum.c) against a wide-integer oracle."""
from vf import Query
from common import R_ASSUME, ENV_MODEL

UNITS = ['repo:bignum.c', 'kit:env.c', 'kit:libc_models.c']
H = 'C04_bignum.c'
OPN = {'ADDD': 15, 'SUBD': 16, 'ADD': 1, 'SUB': 2, 'CMP': 3, 'NORM': 4, 'FXADD': 5, 'FXSUB': 6, 'F2B': 7, 'LSINT': 8, 'LUINT': 9, 'ADDFIX': 10,
       'GADD': 11, 'GSUB': 12, 'GCMP': 13, 'COPY': 14}
FUNCTIONS = ['sexp_bignum_add', 'sexp_bignum_sub', 'sexp_bignum_add_digits', 'sexp_bignum_sub_digits', 'sexp_bignum_compare',
             'sexp_bignum_compare_abs', 'sexp_bignum_hi', 'sexp_bignum_zerop', 'sexp_bignum_normalize', 'sexp_bignum_fxadd',
             'sexp_bignum_fxsub', 'sexp_fixnum_to_bignum', 'sexp_make_integer_from_lsint', 'sexp_make_unsigned_integer_from_luint',
             'sexp_bignum_add_fixnum', 'sexp_add', 'sexp_sub', 'sexp_compare', 'sexp_copy_bignum', 'sexp_make_bignum']


# R5 frontier cuts: with exact-integer operands the flonum / ratio / complex arms of the generic
# dispatch are unreachable; the solver has to prove that (assert-false bodies), symex does not enter them
CUTS = ['sexp_ratio_[a-z_]*', 'sexp_complex_[a-z_]*', 'sexp_make_ratio', 'sexp_make_complex', 'sexp_double_to_bignum',
        'sexp_double_to_ratio[_2]*', 'sexp_bignum_to_double', 'sexp_inexact_to_exact', 'sexp_to_complex', 'sexp_bignum_mul',
        'sexp_bignum_quot_rem', 'sexp_bignum_expt', 'sexp_bignum_sqrt', 'sexp_mul', 'sexp_div', 'sexp_quotient', 'sexp_remainder',
        'sexp_fp_add', 'sexp_fp_sub', 'sexp_fp_mul', 'sexp_fp_div', 'sexp_to_double', 'sexp_ratio_normalize']


FIX_Q = [0, -1, 1, (1 << 61) - 1, -(1 << 61)]
FIX_T = FIX_Q + [2, -2, 1 << 31, (1 << 32) - 1, -(1 << 32), (1 << 61) - 2, -(1 << 61) + 1, 1 << 60, 0x1555555555555555]


def cval(v):
    return '(%dL)' % v if v > -(1 << 61) else '(-%dL-1)' % ((1 << 61) - 1)


def queries(tier):
    qs = []
    K = 2 if tier == 'quick' else 3
    cap = 240 if tier == 'quick' else 1800
    pf = ['cadical', 'minisat', 'kissat']

    def q(name, defs, fns, unwind=5, backends=('cadical', 'minisat'), **kw):
        defs = dict(defs)
        defs.setdefault('KIT_MAXW', 4)
        qs.append(Query(name=name, harness=H, units=UNITS, defs=defs, unit_defs={'KIT_FLAT_NUMERIC': 1, 'KIT_MAX_WORDS': 8}, unwind=unwind, cap=cap,
                        backends=list(backends), functions=fns, **kw))
    for op in ('ADD', 'SUB'):
        for a in range(1, K + 1):
            for b in range(1, K + 1):
                if tier == 'quick' and a + b > 2:
                    continue    # 2x1 and larger take 2-4 min each: thorough tier
                q('bignum_%s[%d,%d]' % (op.lower(), a, b), {'OP': OPN[op], 'AK': a, 'BK': b}, ['sexp_bignum_' + op.lower()], backends=pf)
                q('bignum_%s[%d,%d,dst=a]' % (op.lower(), a, b), {'OP': OPN[op], 'AK': a, 'BK': b, 'ALIAS': 1}, ['sexp_bignum_' + op.lower()], backends=pf)
        if tier != 'quick':
            q('bignum_%s[2,2,dst=3]' % op.lower(), {'OP': OPN[op], 'AK': 2, 'BK': 2, 'DSTK': 3}, ['sexp_bignum_' + op.lower()], backends=pf)
    # magnitude kernels with concrete lengths (top words non-zero): cheap enough for the quick tier at 2x2 and 3x2
    for a in range(1, K + 2):
        for b in range(1, K + 1):
            if b > a or (tier == 'quick' and a + b > 5):
                continue
            w = a + 1
            q('add_digits[%d,%d]' % (a, b), {'OP': OPN['ADDD'], 'AK': a, 'BK': b, 'KIT_MAXW': w, 'WIDE_BITS': 64 * w + 64}, ['sexp_bignum_add_digits'], backends=pf)
            q('sub_digits[%d,%d]' % (a, b), {'OP': OPN['SUBD'], 'AK': a, 'BK': b, 'KIT_MAXW': w, 'WIDE_BITS': 64 * w + 64}, ['sexp_bignum_sub_digits'], backends=pf)
    for a in range(1, K + 1):
        for b in range(1, K + 1):
            q('compare[%d,%d]' % (a, b), {'OP': OPN['CMP'], 'AK': a, 'BK': b},
              ['sexp_bignum_compare', 'sexp_bignum_compare_abs', 'sexp_bignum_hi', 'sexp_bignum_zerop'])
        q('normalize[%d]' % a, {'OP': OPN['NORM'], 'AK': a}, ['sexp_bignum_normalize'])
        q('fxadd[%d]' % a, {'OP': OPN['FXADD'], 'AK': a}, ['sexp_bignum_fxadd'])
        q('fxsub[%d]' % a, {'OP': OPN['FXSUB'], 'AK': a}, ['sexp_bignum_fxsub'])
        for l0 in (0, a, a + 1):
            q('copy[%d,len0=%d]' % (a, l0), {'OP': OPN['COPY'], 'AK': a, 'LEN0': l0}, ['sexp_copy_bignum'])
    q('fixnum_to_bignum', {'OP': OPN['F2B']}, ['sexp_fixnum_to_bignum'])
    q('make_integer_from_lsint[long]', {'OP': OPN['LSINT']}, ['sexp_make_integer_from_lsint'])
    q('make_unsigned_integer_from_luint[128]', {'OP': OPN['LUINT']}, ['sexp_make_unsigned_integer_from_luint'])
    for a in range(1, K + 1):
        q('bignum_add_fixnum[%d]' % a, {'OP': OPN['ADDFIX'], 'AK': a}, ['sexp_bignum_add_fixnum'], backends=pf)
    # generic dispatch over {fixnum, bignum}^2.  Fixnum operands are boundary-lattice constants: with a
    # symbolic fixnum the number-type dispatch stays symbolic and symex wanders through every arm (R10).
    fix = FIX_Q if tier == 'quick' else FIX_T
    for op in ('GADD', 'GSUB', 'GCMP'):
        fn = {'GADD': 'sexp_add', 'GSUB': 'sexp_sub', 'GCMP': 'sexp_compare'}[op]
        for a in range(1, K + 1):
            for b in range(1, K + 1):
                if tier == 'quick' and a + b > 2:
                    continue
                q('%s[big%d,big%d]' % (fn, a, b), {'OP': OPN[op], 'AK': a, 'BK': b}, [fn], backends=pf, unwind=6, cuts=CUTS)
            for v in fix:
                if tier == 'quick' and a > 1:
                    continue
                q('%s[fix=%d,big%d]' % (fn, v, a), {'OP': OPN[op], 'AK': 0, 'BK': a, 'AV': cval(v)}, [fn], unwind=6, cuts=CUTS)
                q('%s[big%d,fix=%d]' % (fn, a, v), {'OP': OPN[op], 'AK': a, 'BK': 0, 'BV': cval(v)}, [fn], unwind=6, cuts=CUTS)
        for v in fix:
            for w in fix:
                q('%s[fix=%d,fix=%d]' % (fn, v, w), {'OP': OPN[op], 'AK': 0, 'BK': 0, 'AV': cval(v), 'BV': cval(w)}, [fn],
                  unwind=6, cuts=CUTS, backends=['minisat'])
    return qs


def bounds(tier):
    K = 2 if tier == 'quick' else 3
    return {'domain': 'D-full: every word of every operand free, either sign, leading zero words allowed',
            'bignum_words': '1..%d per operand (exact object size)' % K,
            'aliasing': 'dst = NULL, dst = a, dst = separate longer bignum (thorough)',
            'oracle': '__CPROVER_bitvector[320] signed', 'unwind': 5}


ASSUMPTIONS = R_ASSUME + [ENV_MODEL,
    'sexp_bignum_fxsub: precondition |a| >= w or a has one significant word (what its callers guarantee)',
    'sexp_bignum_compare: operands are not zeros of opposite sign',
    'generic sexp_add/sub/compare: operands are canonical exact integers (bignum values do not fit a fixnum)']
OUTSIDE = ['values beyond 3 words', 'multiplication/division/expt/sqrt kernels (R7 domains: see evidence of later tiers)',
           'ratios, flonums, complex', 'number->string / string->number wrappers written in Scheme', 'heap exhaustion']
