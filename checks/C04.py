"""C04 — exact arithmetic kernels (bignum.c) against a wide-integer oracle."""
import os, re
from vf import Query, REPO
from common import R_ASSUME, ENV_MODEL

UNITS = ['repo:bignum.c', 'kit:env.c', 'kit:libc_models.c']
H = 'C04_bignum.c'
OPN = {'ADDD': 15, 'SUBD': 16, 'ADD': 1, 'SUB': 2, 'CMP': 3, 'NORM': 4, 'FXADD': 5, 'FXSUB': 6, 'F2B': 7, 'LSINT': 8, 'LUINT': 9, 'ADDFIX': 10,
       'GADD': 11, 'GSUB': 12, 'GCMP': 13, 'COPY': 14, 'GMUL': 17, 'GQUOREM': 18, 'FXMUL': 20, 'FXDIV': 21, 'FXREM': 22, 'MUL': 23, 'QUOTREM': 24}
FUNCTIONS = ['sexp_bignum_add', 'sexp_bignum_sub', 'sexp_bignum_add_digits', 'sexp_bignum_sub_digits', 'sexp_bignum_compare',
             'sexp_bignum_compare_abs', 'sexp_bignum_hi', 'sexp_bignum_zerop', 'sexp_bignum_normalize', 'sexp_bignum_fxadd',
             'sexp_bignum_fxsub', 'sexp_fixnum_to_bignum', 'sexp_make_integer_from_lsint', 'sexp_make_unsigned_integer_from_luint',
             'sexp_bignum_add_fixnum', 'sexp_add', 'sexp_sub', 'sexp_compare', 'sexp_copy_bignum', 'sexp_make_bignum']


UNITS_IND = ['work:bignum_ind.c', 'kit:env.c', 'kit:libc_models.c']
UNITS_IND2 = ['work:bignum_ind2.c', 'kit:env.c', 'kit:libc_models.c']
UNITS_IND3 = ['work:bignum_ind3.c', 'kit:env.c', 'kit:libc_models.c']


def _def_re(fn):
    return re.compile(r'^sexp\s+%s\s*\(\s*sexp\s+ctx\s*,\s*(sexp\s+dst\s*,\s*)?sexp\s+a\s*,\s*sexp\s+b\s*\)\s*\{' % fn, re.M)


def prepare(run, tier):
    """Compositional queries.  One Karatsuba level and the multi-word quotient loop are checked with
    the calls to sexp_bignum_mul/add/sub (level 2) and also the generic sexp_add/sexp_sub (level 3) answered by their
    specifications: a copy of the current bignum.c in which only the *definitions* are renamed to
    <name>_body, so that every call site binds to the harness model.  The renamed bodies themselves are
    checked by the bignum_mul / bignum_add / bignum_sub / add_digits / sub_digits queries."""
    src = os.path.join(REPO, 'bignum.c')
    txt = open(src, errors='replace').read()
    for out, fns in (('bignum_ind2.c', ['sexp_bignum_mul', 'sexp_bignum_add', 'sexp_bignum_sub']),
                     ('bignum_ind3.c', ['sexp_bignum_mul', 'sexp_bignum_add', 'sexp_bignum_sub', 'sexp_add', 'sexp_sub'])):
        new = txt
        for fn in fns:
            new, n = _def_re(fn).subn(lambda m: 'sexp %s_body (sexp ctx, %ssexp a, sexp b) {' % (fn, 'sexp dst, ' if m.group(1) else ''), new)
            if n != 1:
                raise RuntimeError('C04: definition of %s not found exactly once in bignum.c (%d)' % (fn, n))
        with open(os.path.join(run.work, out), 'w') as f:
            f.write('#line 1 "%s"\n' % src)
            f.write(new)
        run.src_dirs[os.path.join(run.work, out)] = REPO
    run.extra_assumptions.append('compositional queries (karatsuba_step, bignum_quot_rem with b of 2+ words): calls to sexp_bignum_mul/add/sub inside the '
                                 'checked body are answered by their specifications (exact value, sign, fixed result length with leading zero words); '
                                 'termination of the recursion is not part of the claim')


# R5 frontier cuts: with exact-integer operands the flonum / ratio / complex arms of the generic
# dispatch are unreachable; the solver has to prove that (assert-false bodies), symex does not enter them
CUTS = ['sexp_ratio_[a-z_]*', 'sexp_complex_[a-z_]*', 'sexp_make_ratio', 'sexp_make_complex', 'sexp_double_to_bignum',
        'sexp_double_to_ratio[_2]*', 'sexp_bignum_to_double', 'sexp_inexact_to_exact', 'sexp_to_complex', 'sexp_bignum_mul',
        'sexp_bignum_quot_rem', 'sexp_bignum_expt', 'sexp_bignum_sqrt', 'sexp_mul', 'sexp_div', 'sexp_quotient', 'sexp_remainder',
        'sexp_fp_add', 'sexp_fp_sub', 'sexp_fp_mul', 'sexp_fp_div', 'sexp_to_double', 'sexp_ratio_normalize']


MULDIV = {'sexp_bignum_mul', 'sexp_bignum_quot_rem', 'sexp_mul', 'sexp_quotient', 'sexp_remainder'}
CUTS_MD = [c for c in CUTS if c not in MULDIV]

# word constants for the D-const products/quotients: the radices of the number reader/printer and boundary words
WORDS_Q = [10, 16, 3, (1 << 32) + 1, (1 << 63) + 1]
WORDS_T = [2, 10, 16, 36, 3, 7, 0xff, 1 << 32, (1 << 32) + 1, 1 << 63, (1 << 63) + 1, (1 << 63) + (1 << 31) + 1]
DENSE = (1 << 64) - 1       # dense multipliers give no SAT verdict (R7); division by it does


def wc(v):
    return '0x%xUL' % v


FIX_Q = [0, -1, 1, (1 << 62) - 1, -(1 << 62)]
FIX_T = FIX_Q + [2, -2, 1 << 31, (1 << 32) - 1, -(1 << 32), (1 << 62) - 2, -(1 << 62) + 1, 1 << 61, 0x1555555555555555]


def cval(v):
    return '(%dL)' % v if v > -(1 << 62) else '(-%dL-1)' % ((1 << 62) - 1)


def queries(tier):
    qs = []
    K = 2 if tier == 'quick' else 3
    cap = 240 if tier == 'quick' else 1800
    pf = ['cadical', 'minisat', 'kissat']

    def q(name, defs, fns, unwind=5, backends=('cadical', 'minisat'), unwindset=None, **kw):
        defs = dict(defs)
        defs.setdefault('KIT_MAXW', 4)
        qs.append(Query(name=name, harness=H, units=kw.pop('units', UNITS), defs=defs, unit_defs={'KIT_FLAT_NUMERIC': 1, 'KIT_MAX_WORDS': kw.pop('max_words', 8)}, unwind=unwind, cap=cap,
                        backends=list(backends), functions=fns, unwindset=unwindset or {}, **kw))
    for op in ('ADD', 'SUB'):
        for a in range(1, K + 1):
            for b in range(1, K + 1):
                if tier == 'quick' and a + b > 2:
                    continue    # 2x1 and larger take 2-4 min each: thorough tier
                q('bignum_%s[%d,%d]' % (op.lower(), a, b), {'OP': OPN[op], 'AK': a, 'BK': b}, ['sexp_bignum_' + op.lower()], backends=pf)
                q('bignum_%s[%d,%d,dst=a]' % (op.lower(), a, b), {'OP': OPN[op], 'AK': a, 'BK': b, 'ALIAS': 1}, ['sexp_bignum_' + op.lower()], backends=pf)
    # magnitude kernels with concrete lengths (top words non-zero): cheap enough for the quick tier at 2x2 and 3x2
    for a in range(1, K + 2):
        for b in range(1, K + 1):
            if b > a or (tier == 'quick' and a + b > 5):
                continue
            w = a + 1
            q('add_digits[%d,%d]' % (a, b), {'OP': OPN['ADDD'], 'AK': a, 'BK': b, 'KIT_MAXW': w, 'WIDE_BITS': 64 * w + 64}, ['sexp_bignum_add_digits'], backends=pf, unwind=max(5, w + 2))
            q('sub_digits[%d,%d]' % (a, b), {'OP': OPN['SUBD'], 'AK': a, 'BK': b, 'KIT_MAXW': w, 'WIDE_BITS': 64 * w + 64}, ['sexp_bignum_sub_digits'], backends=pf, unwind=max(5, w + 2))
    for a in range(1, K + 1):
        for b in range(1, K + 1):
            q('compare[%d,%d]' % (a, b), {'OP': OPN['CMP'], 'AK': a, 'BK': b},
              ['sexp_bignum_compare', 'sexp_bignum_compare_abs', 'sexp_bignum_hi', 'sexp_bignum_zerop'])
        q('normalize[%d]' % a, {'OP': OPN['NORM'], 'AK': a}, ['sexp_bignum_normalize'])
        q('fxadd[%d]' % a, {'OP': OPN['FXADD'], 'AK': a}, ['sexp_bignum_fxadd'])
        q('fxsub[%d]' % a, {'OP': OPN['FXSUB'], 'AK': a}, ['sexp_bignum_fxsub'])
        for l0 in (0, a, a + 1):
            q('copy[%d,len0=%d]' % (a, l0), {'OP': OPN['COPY'], 'AK': a, 'LEN0': l0}, ['sexp_copy_bignum'])
    q('fixnum_to_bignum', {'OP': OPN['F2B']}, ['sexp_fixnum_to_bignum'])
    q('make_integer_from_lsint[long]', {'OP': OPN['LSINT']}, ['sexp_make_integer_from_lsint'])
    q('make_unsigned_integer_from_luint[128]', {'OP': OPN['LUINT']}, ['sexp_make_unsigned_integer_from_luint'])
    for a in range(1, K + 1):
        q('bignum_add_fixnum[%d]' % a, {'OP': OPN['ADDFIX'], 'AK': a}, ['sexp_bignum_add_fixnum'], backends=pf)
    # generic dispatch over {fixnum, bignum}^2.  Fixnum operands are boundary-lattice constants: with a
    # symbolic fixnum the number-type dispatch stays symbolic and symex wanders through every arm (R10).
    fix = FIX_Q if tier == 'quick' else FIX_T
    for op in ('GADD', 'GSUB', 'GCMP'):
        fn = {'GADD': 'sexp_add', 'GSUB': 'sexp_sub', 'GCMP': 'sexp_compare'}[op]
        for a in range(1, K + 1):
            for b in range(1, K + 1):
                if tier == 'quick' and a + b > 2:
                    continue
                q('%s[big%d,big%d]' % (fn, a, b), {'OP': OPN[op], 'AK': a, 'BK': b}, [fn], backends=pf, unwind=6, cuts=CUTS)
            for v in fix:
                if tier == 'quick' and a > 1:
                    continue
                q('%s[fix=%d,big%d]' % (fn, v, a), {'OP': OPN[op], 'AK': 0, 'BK': a, 'AV': cval(v)}, [fn], unwind=6, cuts=CUTS)
                q('%s[big%d,fix=%d]' % (fn, a, v), {'OP': OPN[op], 'AK': a, 'BK': 0, 'BV': cval(v)}, [fn], unwind=6, cuts=CUTS)
        for v in fix:
            for w in fix:
                q('%s[fix=%d,fix=%d]' % (fn, v, w), {'OP': OPN[op], 'AK': 0, 'BK': 0, 'AV': cval(v), 'BV': cval(w)}, [fn],
                  unwind=6, cuts=CUTS, backends=['minisat'])
    # ---- products and quotients, R7 domains: one operand constant, the other free ----
    words = WORDS_Q if tier == 'quick' else WORDS_T
    pfa = ['cadical', 'minisat', 'kissat']
    for a in range(1, K + 1):
        for w in words:
            if tier == "quick" and a > 1 and w not in (10, 16, 3):
                continue
            if a >= 3 and w == 0xff:
                continue        # no verdict in 30 min for 3 words (8 one-bits in the divisor)
            q('fxmul[%d,w=%#x]' % (a, w), {'OP': OPN['FXMUL'], 'AK': a, 'W': wc(w)}, ['sexp_bignum_fxmul'], backends=pfa)
            q('fxmul[%d,w=%#x,dst=a]' % (a, w), {'OP': OPN['FXMUL'], 'AK': a, 'W': wc(w), 'ALIAS': 1}, ['sexp_bignum_fxmul'], backends=pfa)
            q('fxdiv[%d,w=%#x]' % (a, w), {'OP': OPN['FXDIV'], 'AK': a, 'W': wc(w)}, ['sexp_bignum_fxdiv'], backends=pfa)
            if w == 10 and a == 1:
                q('fxdiv[%d,w=%#x]' % (a, DENSE), {'OP': OPN['FXDIV'], 'AK': a, 'W': wc(DENSE)}, ['sexp_bignum_fxdiv'], backends=pfa)
            if w < (1 << 62):
                q('fxrem[%d,w=%d]' % (a, w), {'OP': OPN['FXREM'], 'AK': a, 'W': '(%dL)' % w}, ['sexp_bignum_fxrem', 'sexp_bignum_fxdiv'], backends=pfa)
                if w in (3, 10, 16):
                    q('fxrem[%d,w=%d]' % (a, -w), {'OP': OPN['FXREM'], 'AK': a, 'W': '(%dL)' % -w}, ['sexp_bignum_fxrem', 'sexp_bignum_fxdiv'], backends=pfa)
    # constant bignum operands (words from the boundary lattice)
    CB1 = [[3], [(1 << 63) + 1], [1 << 63]] if tier == 'quick' else [[1], [3], [10], [1 << 32], [(1 << 63) + 1], [1 << 63], [(1 << 62)]]
    CB2 = [[(1 << 63) + 1, 1], [5, 1 << 63]] if tier == 'quick' else [[(1 << 63) + 1, 1], [5, 1 << 63], [0, 1], [(1 << 63) + 1, (1 << 63) + 1], [1, 1 << 32], [(1 << 63) + 1, 3]]
    CB3 = [[7, (1 << 63) + 1, 1 << 31]]

    # sexp_bignum_mul recurses (operand swap, Karatsuba); the recursion bound is checked by an unwinding assertion
    RECUR = {'sexp_bignum_mul': 3, 'model_sum.0': 12, 'sexp_bignum_mul.0': 12, 'wide_of.0': 8}
    ATOPS = [1, (1 << 64) - 1, 1 << 63, 0x8000000000000001]

    def bdefs(ws, sign=1):
        d = {'BK': len(ws), 'BSIGN': sign}
        for i, w in enumerate(ws):
            d['BW%d' % i] = wc(w)
        return d

    def bname(ws, sign=1):
        return ('-' if sign < 0 else '') + ':'.join('%x' % w for w in reversed(ws))
    for a in range(1, K + 1):
        for ws in CB1 + CB2 + (CB3 if tier != 'quick' else []):
            if tier == 'quick' and a + len(ws) > 3 and not (a == 2 and ws == CB2[0]):
                continue
            for sign in (1, -1):
                if sign < 0 and tier == 'quick' and len(ws) > 1:
                    continue
                ind = len(ws) > 1 and a > 1          # Karatsuba / multi-word quotient loop: inductive (see prepare)
                d = dict(bdefs(ws, sign), OP=OPN['MUL'], AK=a, KIT_MAXW=6, WIDE_BITS=448)
                if a > 1:
                    d['ATOP'] = wc(ATOPS[(a + len(ws) + (sign < 0)) % len(ATOPS)])
                if ind:
                    d['MUL_MODEL'] = 2
                kw = dict(backends=pfa, unwind=7, cuts=CUTS_MD, unwindset=RECUR)
                if ind:
                    kw['units'] = UNITS_IND2
                    if a + len(ws) >= 5:
                        kw['max_words'] = 14        # shifted intermediate products of the 3-word cases
                        kw['unwind'] = 12           # specification results have up to a+b+2 words
                nm = 'karatsuba_step' if ind else 'bignum_mul'
                q('%s[%d,b=%s]' % (nm, a, bname(ws, sign)), d, ['sexp_bignum_mul', 'sexp_bignum_fxmul'], **kw)
                if sign > 0 and a != len(ws):
                    q('%s[b=%s,%d]' % (nm, bname(ws, sign), a), dict(d, SWAP=1), ['sexp_bignum_mul', 'sexp_bignum_fxmul'], **kw)
                d = dict(bdefs(ws, sign), OP=OPN['QUOTREM'], AK=a, KIT_MAXW=6, WIDE_BITS=448)
                if ind:
                    d['ATOP'] = wc([(1 << 64) - 1, (1 << 63) + 5][(a + len(ws) + (sign < 0)) % 2])   # large dividends: the quotient is a full word
                    d['MUL_MODEL'] = 3
                    kw['units'] = UNITS_IND3
                q('bignum_quot_rem[%d,b=%s]' % (a, bname(ws, sign)), d, ['sexp_bignum_quot_rem', 'sexp_bignum_mul', 'sexp_bignum_fxdiv'], **kw)
    # the estimate-and-correct path of the quotient loop (first estimate 0, second estimate overshoots depending on the
    # free low word): dividend 1:2^63:*, divisor 1:2^63+1
    d = dict(bdefs([(1 << 63) + 1, 1]), OP=OPN['QUOTREM'], AK=3, KIT_MAXW=6, WIDE_BITS=448, ATOP=wc(1), AMID=wc(1 << 63), MUL_MODEL=3)
    q('bignum_quot_rem[3=1:8000000000000000:*,b=1:8000000000000001]', d, ['sexp_bignum_quot_rem'], backends=pfa, unwind=7, cuts=CUTS_MD, unwindset=RECUR, units=UNITS_IND3)
    # generic dispatch
    for a in range(1, K + 1):
        for v in fix:
            if tier == 'quick' and a > 1:
                continue
            if bin(abs(v)).count('1') <= 8:     # dense multipliers (2^62-1, 0x1555...) give no SAT verdict (R7); the divisions keep them
                q('sexp_mul[big%d,fix=%d]' % (a, v), {'OP': OPN['GMUL'], 'AK': a, 'BK': 0, 'BV': cval(v)}, ['sexp_mul'], unwind=7, cuts=CUTS_MD, backends=pfa)
                q('sexp_mul[fix=%d,big%d]' % (v, a), {'OP': OPN['GMUL'], 'AK': a, 'BK': 0, 'BV': cval(v), 'SWAP': 1}, ['sexp_mul'], unwind=7, cuts=CUTS_MD, backends=pfa)
            if v != 0:
                q('quotient+remainder[big%d,fix=%d]' % (a, v), {'OP': OPN['GQUOREM'], 'AK': a, 'BK': 0, 'BV': cval(v)}, ['sexp_quotient', 'sexp_remainder'], unwind=7, cuts=CUTS_MD, backends=pfa)
            q('quotient+remainder[fix=%d,big%d]' % (v, a), {'OP': OPN['GQUOREM'], 'AK': 0, 'BK': a, 'AV': cval(v)}, ['sexp_quotient', 'sexp_remainder'], unwind=7, cuts=CUTS_MD, backends=pfa)
    for v in fix:
        for w in fix:
            q('sexp_mul[fix=%d,fix=%d]' % (v, w), {'OP': OPN['GMUL'], 'AK': 0, 'BK': 0, 'AV': cval(v), 'BV': cval(w)}, ['sexp_mul'], unwind=7, cuts=CUTS_MD, backends=['minisat'])
            if w != 0:
                q('quotient+remainder[fix=%d,fix=%d]' % (v, w), {'OP': OPN['GQUOREM'], 'AK': 0, 'BK': 0, 'AV': cval(v), 'BV': cval(w)}, ['sexp_quotient', 'sexp_remainder'], unwind=7, cuts=CUTS_MD, backends=['minisat'])
    return qs


def bounds(tier):
    K = 2 if tier == 'quick' else 3
    return {'domain': 'D-full: every word of every operand free, either sign, leading zero words allowed',
            'bignum_words': '1..%d per operand (exact object size)' % K,
            'aliasing': 'dst = NULL, dst = a (the two uses in the tree)',
            'oracle': '__CPROVER_bitvector[320] signed', 'unwind': 5}


ASSUMPTIONS = R_ASSUME + [ENV_MODEL,
    'sexp_bignum_fxsub: precondition |a| >= w or a has one significant word (what its callers guarantee)',
    'sexp_bignum_compare: operands are not zeros of opposite sign',
    'generic sexp_add/sub/compare: operands are canonical exact integers (bignum values do not fit a fixnum)']
OUTSIDE = ['values beyond 3 words', 'multiplication/division/expt/sqrt kernels (R7 domains: see evidence of later tiers)',
           'ratios, flonums, complex', 'number->string / string->number wrappers written in Scheme', 'heap exhaustion']
