"""C05 — tail calls in constant space / clean stack exhaustion: VM frame discipline (sliced TAIL_CALL, RET) and sexp_grow_stack."""
import os, subprocess, sys
from vf import Query, VERIF, REPO
from common import R_ASSUME
import C01

OPS = ['TAIL_CALL', 'RET', 'CALLCC', 'RESUMECC']
UNITS = C01.UNITS
UD = dict(C01.UD, SEXP_MAX_STACK_SIZE=48, KIT_MAX_stack=48, KIT_MAX_vector=12)
EXC = C01.EXC
FUNCTIONS = ['sexp_apply: case SEXP_OP_TAIL_CALL', 'sexp_apply: case SEXP_OP_RET', 'sexp_grow_stack']


def prepare(run, tier):
    out = os.path.join(run.work, 'vm_slices.c')
    r = subprocess.run([sys.executable, os.path.join(VERIF, 'gen', 'vm_slice.py'), os.path.join(REPO, 'vm.c'), out] + OPS, capture_output=True, text=True)
    if r.returncode != 0 or 'not sliceable' in r.stdout:
        raise RuntimeError('vm_slice failed: ' + r.stdout + r.stderr)
    run.extra_assumptions.append('VM opcodes are checked as sliced case bodies (verbatim text of the case in the current vm.c, compiled inside a copy of vm.c)')


def mk(name, op, extra=None, **kw):
    return Query(name=name, harness='C05_calls.c', units=UNITS, unit_defs=UD, defs=dict({'OP': op}, **(extra or {})), unwind=100,
                 remove_bodies=EXC, cap=600, backends=['cadical', 'minisat', 'kissat'], **kw)


def queries(tier):
    return [mk('TAIL_CALL[j<=2 old args, i<=2 new args, <=2 locals: frame replaced]', 1, functions=FUNCTIONS[:1]),
            mk('RET[j<=2 args, <=2 locals: frame popped]', 2, functions=FUNCTIONS[1:2]),
            ] + [mk('grow_stack[12-word stack, any top, request %d; limit 48]' % w, 5, extra={'WANT': w, 'DEPTH': 12}, functions=FUNCTIONS[2:]) for w in (0, 30, 100)] + \
           [mk('grow_stack[48-word stack at the limit, request 100]', 5, extra={'WANT': 100, 'DEPTH': 48}, functions=FUNCTIONS[2:])]


BOUNDS = {'frames': 'caller frame with 0..2 arguments and 0..2 locals at a symbolic previous fp / return offset; 0..2 new arguments', 'stack': '24 words; SEXP_MAX_STACK_SIZE scaled to 48'}
ASSUMPTIONS = R_ASSUME + ['constant space for N iterations follows from the one-step frame replacement by induction (paper argument); '
                          'SEXP_MAX_STACK_SIZE is overridden to 48 (scale model of the limit, features.h allows the override)']
OUTSIDE = ['code generation of tail positions (sexp_generate: which calls become TAIL_CALL) and derived forms (cond/case/and/or/when/unless/do, named let are Scheme macros)',
           'the make_call sequence itself (arity check, rest-list building, stack check) and the out-of-stack error path through it', 'deep non-tail recursion end to end']
