"""C05 — tail calls in constant space / clean stack exhaustion: VM frame discipline (sliced TAIL_CALL, RET) and sexp_grow_stack."""
import os, subprocess, sys
from vf import Query, VERIF, REPO
from common import R_ASSUME
import C01

OPS = ['TAIL_CALL', 'RET', 'CALLCC', 'RESUMECC', 'LABEL_make_call', 'LOCAL_REF', 'LOCAL_SET']
UNITS = C01.UNITS
UD = dict(C01.UD, SEXP_MAX_STACK_SIZE=48, KIT_MAX_stack=48, KIT_MAX_vector=12)
EXC = C01.EXC
FUNCTIONS = ['sexp_apply: case SEXP_OP_TAIL_CALL', 'sexp_apply: case SEXP_OP_RET', 'sexp_grow_stack', 'sexp_apply: make_call']


def prepare(run, tier):
    out = os.path.join(run.work, 'vm_slices.c')
    r = subprocess.run([sys.executable, os.path.join(VERIF, 'gen', 'vm_slice.py'), os.path.join(REPO, 'vm.c'), out] + OPS, capture_output=True, text=True)
    if r.returncode != 0 or 'not sliceable' in r.stdout:
        raise RuntimeError('vm_slice failed: ' + r.stdout + r.stderr)
    run.extra_assumptions.append('VM opcodes are checked as sliced case bodies (verbatim text of the case in the current vm.c, compiled inside a copy of vm.c)')


def mk(name, op, extra=None, **kw):
    return Query(name=name, harness='C05_calls.c', units=UNITS, unit_defs=UD, defs=dict({'OP': op}, **(extra or {})), unwind=100,
                 remove_bodies=EXC, cap=600, backends=['cadical', 'minisat', 'kissat'], **kw)


def queries(tier):
    return [mk('TAIL_CALL[j<=2 old args, i<=2 new args, <=2 locals: frame replaced]', 1, functions=FUNCTIONS[:1]),
            mk('RET[j<=2 args, <=2 locals: frame popped]', 2, functions=FUNCTIONS[1:2]),
            ] + [mk('grow_stack[12-word stack, any top, request %d; limit 48]' % w, 5, extra={'WANT': w, 'DEPTH': 12}, functions=FUNCTIONS[2:]) for w in (0, 30, 100)] + \
           [mk('grow_stack[48-word stack at the limit, request 100]', 5, extra={'WANT': 100, 'DEPTH': 48}, functions=FUNCTIONS[2:])] + make_call_queries(tier)


UD_CALL = dict(C01.UD, KIT_MAX_stack=48, KIT_MAX_vector=12)     # default SEXP_MAX_STACK_SIZE; a 96-word stack keeps sexp_ensure_stack's 64-word margin free


def make_call_queries(tier):
    qs = []
    for na in (0, 1, 2):
        for var, unused in ((0, 0), (1, 0), (1, 1)):
            qs.append(Query(name='make_call[callee with %d fixed parameters%s; 0..3 arguments]' % (na, ', rest parameter' + (' (unused)' if unused else '') if var else ''),
                            harness='C05_calls.c', units=UNITS, unit_defs=UD_CALL, defs={'OP': 7, 'NA': na, 'VARIADIC': var, 'UNUSED_REST': unused, 'CALLEE_KIND': 0, 'DEPTH': 96},
                            unwind=100, remove_bodies=EXC, cap=600, backends=['cadical', 'minisat', 'kissat'], functions=['sexp_apply: make_call (arity, rest list, frame header)']))
    # compiler index <-> frame layout <-> VM access
    for na, var, nloc in ((2, 0, 2), (1, 1, 1), (0, 1, 2), (2, 1, 0)):
        qs.append(Query(name='variable slots[%d parameters%s, %d locals: sexp_param_index vs make_call frame vs LOCAL_REF/LOCAL_SET]' % (na, ' + rest' if var else '', nloc),
                        harness='C05_calls.c', units=UNITS, unit_defs=UD_CALL, defs={'OP': 8, 'NA': na, 'VARIADIC': var, 'UNUSED_REST': 0, 'CALLEE_KIND': 0, 'NLOC': nloc, 'DEPTH': 96},
                        unwind=100, remove_bodies=EXC, cap=600, backends=['cadical', 'minisat', 'kissat'],
                        functions=['sexp_param_index', 'sexp_apply: make_call', 'sexp_apply: case SEXP_OP_LOCAL_REF', 'sexp_apply: case SEXP_OP_LOCAL_SET']))
    for kind, nm in ((1, 'pair'), (2, 'fixnum')):
        qs.append(Query(name='make_call[applying a %s]' % nm, harness='C05_calls.c', units=UNITS, unit_defs=UD_CALL,
                        defs={'OP': 7, 'NA': 1, 'VARIADIC': 0, 'UNUSED_REST': 0, 'CALLEE_KIND': kind, 'DEPTH': 96}, unwind=100, remove_bodies=EXC, cap=600,
                        backends=['cadical', 'minisat', 'kissat'], functions=['sexp_apply: make_call (applicability)']))
    return qs


BOUNDS = {'make_call': 'callee with 0..2 fixed parameters, rest parameter absent / used / unused; 0..3 actual arguments (free); 96-word stack (no growth); variable-slot queries: 0..2 parameters, optional rest, 0..2 locals',
          'frames': 'caller frame with 0..2 arguments and 0..2 locals at a symbolic previous fp / return offset; 0..2 new arguments', 'stack': '24 words; SEXP_MAX_STACK_SIZE scaled to 48'}
ASSUMPTIONS = R_ASSUME + ['constant space for N iterations follows from the one-step frame replacement by induction (paper argument); '
                          'SEXP_MAX_STACK_SIZE is overridden to 48 (scale model of the limit, features.h allows the override)']
OUTSIDE = ['code generation of tail positions (sexp_generate: which calls become TAIL_CALL) and derived forms (cond/case/and/or/when/unless/do, named let are Scheme macros)',
           'opcode objects applied through make_call (make_opcode_procedure compiles a wrapper), the out-of-stack error path through make_call', 'deep non-tail recursion end to end']
