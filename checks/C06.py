"""C06 — continuations (C core): CALLCC / RESUMECC as sliced case bodies with the real sexp_save_stack / sexp_restore_stack."""
from vf import Query
import C05
from common import R_ASSUME

prepare = C05.prepare
FUNCTIONS = ['sexp_apply: case SEXP_OP_CALLCC', 'sexp_apply: case SEXP_OP_RESUMECC', 'sexp_save_stack', 'sexp_restore_stack', 'sexp_make_procedure_op', 'sexp_make_vector_op']


def queries(tier):
    qs = []
    for t in (2, 3, 4, 5):
        qs.append(C05.mk('CALLCC[capture: stack of %d words, any fp, any ip]' % t, 3, extra={'TCONST': t}, functions=FUNCTIONS))
        if tier != 'quick' or t in (2, 4):
            qs.append(C05.mk('CALLCC+RESUMECC[capture %d words, arbitrary later stack, re-enter with a value]' % t, 4, extra={'TCONST': t, 'DEPTH': 96}, functions=FUNCTIONS))
    return qs


BOUNDS = {'capture': 'stack depth 2..5 (one query each), frame pointer and instruction offset free', 'resume': 'the whole stack is overwritten with free values, the resumer frame sits at a free position 1..12'}
ASSUMPTIONS = R_ASSUME + C05.ASSUMPTIONS[-1:]
OUTSIDE = ['resuming a continuation whose length is within 64 words of the current stack length (sexp_restore_stack then grows the stack while the VM keeps its local `stack` pointer: observed by a first version of the harness, not reproducible through the public API because the call sequence keeps a larger margin; recorded in DESIGN as a candidate, the harness uses a stack with head-room)',
           'dynamic-wind / the wind list / travel-to-point!, with-exception-handler, guard, parameterize: Scheme code of init-7.scm and srfi/39 (not encodable)',
           'RAISE / call_error_handler dispatch and parameter lookup (not encoded in this tier)', 'escaping from foreign callbacks']
