"""C08 — external representations: native writer -> text -> native reader on in-memory ports for symbols and strings;
UTF-8 character-literal decoder."""
from vf import Query
from common import R_ASSUME

UNITS = ['kit:kitfull.c', 'kit:env.c', 'kit:exc_models.c', 'kit:libc_models.c']
UD = {'KIT_REAL_SEXP': 1}
EXC = ['sexp_alloc_tagged_aux', 'sexp_type_exception', 'sexp_xtype_exception', 'sexp_range_exception', 'sexp_user_exception', 'sexp_user_exception_ls']
FUNCTIONS = ['sexp_decode_utf8_char', 'sexp_utf8_encode_char', 'sexp_utf8_char_byte_count', 'sexp_write_one (symbol, string cases)', 'sexp_read_raw', 'sexp_read_symbol', 'sexp_read_string', 'sexp_read_number (radix 16, string escapes)', 'sexp_buffered_read_char']


# the written text of an atom never makes the tokeniser loop (leading blanks, comments, lists, #| |# ...): every loop and the
# recursion of sexp_read_raw get bound 1-2, and the unwinding assertions make the solver prove that this suffices
# number syntax must be unreachable from the text of a symbol/string/char (assert-false bodies: the solver proves it)
NUMCUTS = ['sexp_read_number', 'sexp_read_float_tail', 'sexp_read_complex_tail', 'sexp_read_polar_tail', 'sexp_read_bignum', 'sexp_read_error', 'sexp_lookup_type', 'sexp_list_to_vector_op',
           'sexp_list_to_uvector_op', 'sexp_make_ratio', 'sexp_ratio_normalize', 'sexp_make_complex', 'sexp_exact_to_inexact', 'sexp_make_flonum']
# first byte of the name/string: one query per class of the tokeniser's dispatch (the other bytes are free)
FIRST_Q = [ord(c) for c in ".+-0a#|(;\"'{i`"] + [0x0a, 0x80]
FIRST_T = FIRST_Q + [x for x in [ord(c) for c in "\\ ,`}n@1e9N~!$%&*/:<=>?^_)[]"] + [0x01, 0x09, 0x0d, 0x1f, 0x7f, 0xc3, 0xe2, 0xf0, 0xff] if x not in FIRST_Q]
# texts are at most 2+2N bytes: the libc copy loops (byte-wise models) get a bound just above that instead of the kit default
SMALL_LIBC = {'memcpy.0': 12, 'memcpy.1': 12, 'memmove.0': 12, 'memmove.1': 12, 'memmove.2': 12, 'memmove.3': 12, 'memset.0': 12, 'memset.1': 12}
RAW_LOOPS = {'sexp_read_raw.%d' % i: 2 for i in range(0, 30)}


def queries(tier):
    qs = _decode_queries(tier)
    cap = 900 if tier == 'quick' else 2400
    firsts = FIRST_Q if tier == 'quick' else FIRST_T
    us = dict(RAW_LOOPS, **dict(SMALL_LIBC, **{'strlen.0': 8, 'harness.0': 50, 'harness.1': 50, 'read_back.0': 8, 'sexp_intern.0': 30, 'sexp_intern.1': 30, 'sexp_intern.2': 30, 'strcasecmp.0': 10, 'strncasecmp.0': 10, 'sexp_read_raw': 1, 'sexp_read_one': 1,
                                               'sexp_write_one': 1, 'sexp_read_string.0': 2, 'sexp_read_string.1': 2, '__ctype_b_loc.0': 130}))

    def pq(name, kind, n, first=None, numcuts=NUMCUTS, backends=('cadical',), extra_us=None, extra_defs=None):
        defs = {'KINDSEL': kind, 'N': n, 'OBUF': 4 + 4 * max(n, 1) + 4}
        if first is not None:
            defs['FIRST'] = '0x%02x' % first
            if first <= 32 or chr(first) in '#;\'()",`{}|\\':
                defs['MUSTQUOTE'] = 1
        defs.update(extra_defs or {})
        qs.append(Query(name=name, harness='C08_port.c', units=UNITS, unit_defs=dict(UD, KIT_MAX_bytes=8, KIT_MAX_symbol=8), defs=defs, unwind=4 * max(n, 1) + 4,
                        unwindset=dict(us, **dict({'sexp_read_string.2': n + 2, 'sexp_read_symbol.0': n + 2}, **(extra_us or {}))), remove_bodies=EXC + ['sexp_intern'], cuts=['sexp_buffered_flush'] + numcuts, cap=cap,
                        backends=list(backends), flags=['--slice-formula'], functions=['sexp_write_one', 'sexp_read_raw', 'sexp_read_symbol', 'sexp_read_string']))
    for n in ((2,) if tier == 'quick' else (2, 3)):
        for f in firsts:
            pq('write->read[symbol,%d bytes,first=%s]' % (n, ('0x%02x' % f) + ('(%s)' % chr(f) if chr(f).isalnum() else '')), 1, n, first=f,
               backends=('cadical',) if tier == 'quick' and f not in (0x2b, 0x2d) else ('cadical', 'kissat'))
    # strings and characters: the text starts with a fixed delimiter, every byte is free; hex escapes go through the real
    # sexp_read_number (radix 16), whose float / ratio / complex / bignum continuations must stay unreachable
    nc = [c for c in NUMCUTS if c != 'sexp_read_number']
    for n in ((1,) if tier == 'quick' else (1, 2)):
        pq('write->read[string,%d bytes]' % n, 2, n, numcuts=nc, backends=('cadical', 'kissat'), extra_us={'sexp_read_number': 1})
    return qs


def _decode_queries(tier):
    return [Query(name=nm, harness='C08_rw.c', units=UNITS, unit_defs=UD, defs={'PART': part}, unwind=6, unwindset={'strlen.0': 6},
                  remove_bodies=EXC, cap=300, backends=['cadical', 'minisat', 'kissat'], functions=FUNCTIONS)
            for part, nm in ((1, 'char-literal decode[all non-ASCII scalar values: decode(encode(c)) == c]'),
                             (2, 'char-literal decode[arbitrary 4 bytes: total, value only for lead+continuation]'))]


BOUNDS = {'chars': 'all scalar values 0x80..0x10FFFF minus surrogates (21 free bits), all four UTF-8 width classes in one query',
          'hostile_input': '4 free bytes + NUL',
          'symbols': 'names of 2 bytes (3 thorough): first byte one constant per query (15 classes quick / 45 thorough), the other bytes free (non-NUL); '
                     'text followed by a blank; in-memory ports of 12-20 bytes',
          'strings': '1 free byte (2 thorough), incl. every escape the writer emits (named, \\xHH;), read back through the real sexp_read_string/sexp_read_number(16)'}
ASSUMPTIONS = R_ASSUME + ['ports are in-memory buffers built by the harness (buffer never fills: sexp_buffered_flush is cut and proved unreachable); the input port is closed, so the end of the buffer is EOF',
                          'sexp_intern is a content-addressed model (equal names <=> same object); the real symbol table is not the subject',
                          'for symbols, number syntax (sexp_read_number and its float/ratio/complex/bignum continuations) has assert-false bodies: the solver proves the reader never takes a written symbol for a number',
                          'a symbol whose first byte is a delimiter / prefix character (blank, # ; \' ( ) " , ` { } |, DEL) must be written |quoted| (asserted directly; the reader is run on the quoted form)',
                          "isspace() etc.: glibc's C-locale table as a constant (libc_models.c)"]
OUTSIDE = ['flonum printing/reading (libc snprintf/strtod: no CBMC model)', 'character names and #\\x literals through the ports (no verdict within the cap: 9-way strcmp dispatch)',
           'numbers through the ports (digit loops; bignum text I/O)', 'lists/vectors/datum labels', 'names longer than 3 bytes, strings longer than 2 bytes, text followed by EOF rather than a delimiter',
           'the Scheme (srfi 38) reader/writer pair and therefore the "both pairs agree" half']
