"""C08 — external representations: C kernels of the native reader (UTF-8 character literals)."""
from vf import Query
from common import R_ASSUME

UNITS = ['kit:kitfull.c', 'kit:env.c', 'kit:exc_models.c', 'kit:libc_models.c']
UD = {'KIT_REAL_SEXP': 1}
EXC = ['sexp_alloc_tagged_aux', 'sexp_type_exception', 'sexp_xtype_exception', 'sexp_range_exception', 'sexp_user_exception', 'sexp_user_exception_ls']
FUNCTIONS = ['sexp_decode_utf8_char', 'sexp_utf8_encode_char', 'sexp_utf8_char_byte_count']


def queries(tier):
    return [Query(name=nm, harness='C08_rw.c', units=UNITS, unit_defs=UD, defs={'PART': part}, unwind=6, unwindset={'strlen.0': 6},
                  remove_bodies=EXC, cap=300, backends=['cadical', 'minisat', 'kissat'], functions=FUNCTIONS)
            for part, nm in ((1, 'char-literal decode[all non-ASCII scalar values: decode(encode(c)) == c]'),
                             (2, 'char-literal decode[arbitrary 4 bytes: total, value only for lead+continuation]'))]


BOUNDS = {'chars': 'all scalar values 0x80..0x10FFFF minus surrogates (21 free bits), all four UTF-8 width classes in one query',
          'hostile_input': '4 free bytes + NUL'}
ASSUMPTIONS = R_ASSUME
OUTSIDE = ['flonum printing/reading (libc snprintf/strtod: no CBMC model)', 'symbol/string/number token round trips through string ports (port layer not encoded in this tier)',
           'datum labels', 'the Scheme (srfi 38) reader/writer pair and therefore the "both pairs agree" half']
