"""C09 — (a) the 128-bit emulation of bignum.h equals native __int128 arithmetic."""
from vf import Query
from common import R_ASSUME

H = 'C09_ll.c'
UD = {'SEXP_USE_CUSTOM_LONG_LONGS': 1}
FUNCTIONS = ['luint_add', 'luint_sub', 'luint_add_uint', 'luint_and', 'luint_shl', 'luint_shr', 'luint_lt', 'luint_eq', 'lsint_lt_0',
             'sexp_lsint_fits_sint', 'sexp_luint_fits_uint', 'lsint_from_sint', 'luint_from_uint', 'lsint_to_sint', 'luint_to_uint',
             'lsint_to_sint_hi', 'luint_to_uint_hi', 'luint_is_fixnum', 'lsint_is_fixnum', 'lsint_negate', 'luint_mul_uint',
             'lsint_mul_sint', 'luint_div', 'luint_div_uint']
RADIX_Q = [2, 10, 16, 36]
RADIX_T = list(range(2, 37)) + [1 << 16, 1 << 31, 1 << 32, (1 << 32) + 1, 1 << 63, (1 << 64) - 1]


def queries(tier):
    qs = []
    cap = 240 if tier == 'quick' else 1800

    def q(name, defs, backends=('cadical', 'minisat'), unwind=3, **kw):
        qs.append(Query(name=name, harness=H, units=[], defs=defs, unit_defs=UD, unwind=unwind, cap=cap,
                        backends=list(backends), functions=[], **kw))
    q('addsub[128 free]', {'OP': 1})
    q('shift[128 free, count 0..127]', {'OP': 2})
    q('compare[128 free]', {'OP': 3})
    q('conversions[128 free]', {'OP': 4})
    q('negate[128 free]', {'OP': 5})
    arith = ['cadical', 'minisat', 'kissat']
    for r in (RADIX_Q if tier == 'quick' else RADIX_T):
        q('mul_uint[D-const b=%d]' % r, {'OP': 6, 'DOM': 1, 'BCONST': '%dUL' % r}, backends=arith)
        q('mul_sint[D-const b=%d]' % r, {'OP': 7, 'DOM': 1, 'BCONST': '%dUL' % r}, backends=arith)
        if tier != 'quick' or r in (2, 10):
            q('div_uint[D-const b=%d]' % r, {'OP': 8, 'DOM': 1, 'BCONST': '%dUL' % r}, backends=arith, unwind=130)
    q('mul_uint[D-lattice]', {'OP': 6, 'DOM': 2}, backends=arith)
    q('mul_sint[D-lattice]', {'OP': 7, 'DOM': 2}, backends=arith)
    q('div_uint[D-lattice]', {'OP': 8, 'DOM': 2}, backends=arith, unwind=130)
    w = 10 if tier == 'quick' else 16
    q('mul_uint[D-small W=%d]' % w, {'OP': 6, 'DOM': 3, 'SMALLW': w}, backends=arith)
    q('mul_sint[D-small W=%d]' % w, {'OP': 7, 'DOM': 3, 'SMALLW': w}, backends=arith)
    q('div_uint[D-small W=%d]' % w, {'OP': 8, 'DOM': 3, 'SMALLW': w}, backends=arith, unwind=130)
    return qs


def bounds(tier):
    return {'full_width': 'add, sub, add_uint, and, shl, shr (count 0..127), lt, eq, lt_0, all conversions and fixnum-range tests, negate: all 128 bits free',
            'mul_div': 'R7 domains: D-const multiplier/divisor from %s; D-lattice (12 boundary words per 64-bit half); D-small both < 2^%d' % (
                RADIX_Q if tier == 'quick' else 'radices 2..36 and word-boundary constants', 10 if tier == 'quick' else 16),
            'unwind': 'luint_div loop 128 iterations, unwind 130 with unwinding assertion'}


ASSUMPTIONS = R_ASSUME + ['the specification is the native unsigned/signed __int128 expression that the macro of the same name expands to when SEXP_USE_CUSTOM_LONG_LONGS=0']
OUTSIDE = ['full-width symbolic x symbolic products and quotients (no verdict on any back end, DESIGN R7)',
           'simplifier passes of simplify.c and constant folding (C09 part b: not yet encoded in this tier)', 'lib/chibi/optimize.scm (Scheme)']
