"""C10 — heap stays well-formed and storage is reused: sexp_sweep / sexp_try_alloc on a symbolic heap."""
from vf import Query
from common import R_ASSUME

UNITS = ['kit:kitfull.c', 'kit:env.c', 'kit:exc_models.c', 'kit:libc_models.c']
UD = {'KIT_REAL_SEXP': 1, 'KIT_REAL_GC': 1}
EXC = ['sexp_alloc_tagged_aux', 'sexp_type_exception', 'sexp_xtype_exception', 'sexp_range_exception', 'sexp_user_exception', 'sexp_user_exception_ls']
FUNCTIONS = ['sexp_sweep', 'sexp_try_alloc', 'sexp_allocated_bytes']


def queries(tier):
    qs = []
    cap = 600 if tier == 'quick' else 3000
    ks = [2, 3] if tier == 'quick' else [2, 3, 4, 5]
    for k in ks:
        qs.append(Query(name='sweep[K=%d slots, arbitrary tiling]' % k, harness='C10_heap.c', units=UNITS, unit_defs=UD,
                        defs={'MODE': 1, 'K': k}, unwind=k + 3, unwindset={'memset.0': 6, 'memset.1': 2},
                        remove_bodies=EXC, cap=cap, backends=['cadical', 'minisat', 'kissat'], slow=True, functions=FUNCTIONS))
        for want in (32, 64):
            qs.append(Query(name='try_alloc[K=%d slots, arbitrary tiling, %d bytes]' % (k, want), harness='C10_heap.c', units=UNITS, unit_defs=UD,
                            defs={'MODE': 2, 'K': k, 'WANT': want}, unwind=max(k + 3, 10), unwindset={'memset.0': 10, 'memset.1': 2},
                            remove_bodies=EXC, cap=cap, backends=['cadical', 'minisat', 'kissat'], slow=True, functions=FUNCTIONS))
    return qs


def bounds(tier):
    return {'heap': 'one segment: sentinel + K slots of 32 bytes, K in %s; every tiling of {free (coalesced), marked pair, unmarked pair}' % ([2, 3] if tier == 'quick' else [2, 3, 4, 5]),
            'allocation_sizes': '32 and 64 bytes (one query each)'}


ASSUMPTIONS = R_ASSUME + ['gc.c is textually included in the harness TU (its static functions are the subject); the pre-state satisfies the free-list invariant '
                          '(address ordered, coalesced, sizes multiples of the slot size) and try_alloc is called on a heap without unmarked objects',
                          'objects are pairs (32 bytes); the type table is the real one (kitfull.c)']
OUTSIDE = ['the amortised "constant multiple of live data" statement (follows from reuse + the growth policy by a paper argument)',
           'heap growth (sexp_grow_heap), several segments, fixed-chunk heaps, mmap; object sizes other than one slot', 'heaps of more than 5 slots']
