"""C11 — green threads: the SRFI-18 C primitives (lib/srfi/18/threads.c), one step from small scheduler states."""
from vf import Query
from common import R_ASSUME

UNITS = ['kit:kitfull.c', 'repo:lib/srfi/18/threads.c', 'kit:env.c', 'kit:exc_models.c', 'kit:libc_models.c']
UD = {'KIT_REAL_SEXP': 1}
EXC = ['sexp_alloc_tagged_aux', 'sexp_type_exception', 'sexp_xtype_exception', 'sexp_range_exception', 'sexp_user_exception', 'sexp_user_exception_ls']
FUNCTIONS = ['sexp_mutex_lock', 'sexp_mutex_unlock', 'sexp_condition_variable_signal', 'sexp_condition_variable_broadcast', 'sexp_thread_start',
             'sexp_insert_timed', 'sexp_delete_list']


def queries(tier):
    qs = []
    ops = [(1, 'mutex-lock!', {}), (2, 'mutex-unlock!', {}), (3, 'condition-variable-signal!', {}), (3, 'condition-variable-broadcast!', {'BROADCAST': 1}),
           (4, 'mutex-unlock! + wait on condvar', {}), (5, 'thread-start!', {})]
    for op, nm, extra in ops:
        for np in (0, 1, 2):
            d = dict({'OP': op, 'NPAUSED': np}, **extra)
            qs.append(Query(name='%s[%d paused threads; lock state, awaited events, run queue free]' % (nm, np), harness='C11_threads.c', units=UNITS,
                            unit_defs=UD, defs=d, unwind=8, remove_bodies=EXC, cap=300, backends=['cadical', 'minisat'], functions=FUNCTIONS))
    # one scheduler step: joiners of a terminated thread and due timeouts are woken, nobody is lost, round robin
    for term in (0, 1):
        for np in (0, 1, 2):
            qs.append(Query(name='scheduler step[current thread %s; %d paused threads: join/mutex waits, wake-up times, clock, run queue free]' % ('terminated' if term else 'pre-empted', np),
                            harness='C11_threads.c', units=UNITS, unit_defs=UD, defs={'OP': 6, 'NPAUSED': np, 'TERMINATED': term}, unwind=8, remove_bodies=EXC, cap=600,
                            cuts=['sexp_make_thread', 'sexp_env_cell', 'sexp_intern', 'sexp_insert_timed'], backends=['cadical', 'minisat', 'kissat'], functions=FUNCTIONS + ['sexp_scheduler']))
    return qs


BOUNDS = {'threads': 'current thread + up to 2 paused threads + 1 queued thread; each paused thread waits on the mutex or the condition variable (free choice)',
          'state': 'mutex locked or not (free), run queue empty or one entry (free), no timeouts'}
ASSUMPTIONS = R_ASSUME + ['scheduler step: the paused list is ordered as sexp_insert_timed keeps it (timed waiters first, by time); gettimeofday returns one arbitrary instant; no pending signals, no polled descriptors',
                          'pre-emption only between VM instructions, every primitive is one foreign call: schedules are words over primitives and scheduler steps (argument, not checked)',
                          'timeouts are #f (gettimeofday not involved)']
OUTSIDE = ['fd polling and signal delivery inside sexp_scheduler, a current thread that is itself blocked (the nap / earliest-timeout path), the fuel countdown of sexp_apply',
           'the Scheme retry loops of lib/srfi/18/interface.scm; "a mutex-protected program prints the same for every schedule" (whole program)',
           'more than 2 paused threads; timed waits']
