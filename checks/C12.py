"""C12 — strings are sequences of scalar values: the C string kernel of sexp.c / eval.c."""
from vf import Query
from common import R_ASSUME

UNITS = ['kit:kitfull.c', 'repo:eval.c', 'kit:env.c', 'kit:exc_models.c', 'kit:libc_models.c']
UD = {'KIT_REAL_SEXP': 1}
EXC = ['sexp_alloc_tagged_aux', 'sexp_type_exception', 'sexp_xtype_exception', 'sexp_range_exception', 'sexp_user_exception', 'sexp_user_exception_ls']
FUNCTIONS = ['sexp_utf8_initial_byte_count', 'sexp_utf8_char_byte_count', 'sexp_utf8_encode_char', 'sexp_string_utf8_ref',
             'sexp_string_utf8_length', 'sexp_string_index_to_cursor', 'sexp_string_cursor_to_index', 'sexp_string_utf8_index_ref',
             'sexp_string_utf8_index_set', 'sexp_string_utf8_set', 'sexp_substring_op', 'sexp_utf8_substring_op',
             'sexp_string_concatenate_op', 'sexp_make_string_op', 'sexp_make_bytes_op']
US = {'dec_result.0': 20, 'rfc_dec_all.0': 8, 'sexp_string_utf8_length.0': 12, 'sexp_string_index_to_cursor.0': 8, 'sexp_make_bytes_op.0': 40}


def queries(tier):
    qs = []
    cap = 900 if tier == 'quick' else 2400
    nch = 2 if tier == 'quick' else 3
    store = 8 if tier == 'quick' else 12

    def q(name, defs, nch=nch, store=store, maxw=4, **kw):
        d = dict(defs, NCH=nch, STORE=store, MAXW=maxw)
        ud = dict(UD, KIT_MAX_bytes=max(store + 1, 2 * maxw * nch + 2))
        us = dict(US, **{'memcpy.1': 8 * nch + 3, 'memcpy.0': 4, 'memset.1': 8 * nch + 3, 'memset.0': 4, 'memmove.2': 8 * nch + 3, 'memmove.3': 8 * nch + 3})
        qs.append(Query(name=name, harness='C12_string.c', units=UNITS, unit_defs=ud, defs=d, unwind=8, unwindset=us,
                        remove_bodies=EXC, cap=cap, backends=['cadical', 'minisat', 'kissat'], **kw))
    q('encode/decode[all scalar values]', {'OP': 1})
    q('string-ref[any string, any index]', {'OP': 2})
    q('index<->cursor', {'OP': 4})
    # the allocating operations have data-dependent result sizes: 1-character strings in the quick tier,
    # 2 and 3 characters (4-10 min per query) in the thorough tier
    sizes = [(1, 5)] if tier == 'quick' else [(1, 5), (2, 8), (3, 12)]
    for n, st in sizes:
        q('string-set![<=%d chars, any offset, any index, any char]' % n, {'OP': 3}, nch=n, store=st)
        q('substring[<=%d chars]' % n, {'OP': 5}, nch=n, store=st)
        q('string-concatenate[<=%d chars each]' % n, {'OP': 6}, nch=n, store=st)
    # two characters of at most two bytes each: the cheapest shape with an index > 0 and a width change (quick tier)
    q('string-set![<=2 chars of <=2 bytes, any offset, any index]', {'OP': 3}, nch=2, store=6, maxw=2)
    return qs


def bounds(tier):
    return {'strings': 'well-formed UTF-8 window of <= %d scalar values, every width mix, at a free offset in a free %d-byte store' % (2 if tier == 'quick' else 3, 8 if tier == 'quick' else 12),
            'chars': 'all 0x110000-0x800 scalar values (21 free bits)', 'indices': 'free, from -2 to length+2', 'unwind': US}


ASSUMPTIONS = R_ASSUME + ['strings are well-formed UTF-8 (RFC 3629) inside their window; bytes outside the window are free',
                          'exception constructors and sexp_alloc_tagged_aux modelled (harness/exc_models.c, env.c)']
OUTSIDE = ['histories longer than one operation (each operation is checked from an arbitrary valid string: inductive step)',
           'Scheme-level string-copy!/string-fill!/string->vector of init-7.scm / extras.scm, SRFI 130, (chibi string)',
           'port read/peek/write of characters (C12 part on ports: thorough extension)', 'ill-formed strings']
