"""C12 — strings are sequences of scalar values: the C string kernel of sexp.c / eval.c."""
from vf import Query
from common import R_ASSUME

UNITS = ['kit:kitfull.c', 'repo:eval.c', 'kit:env.c', 'kit:exc_models.c', 'kit:libc_models.c']
UD = {'KIT_REAL_SEXP': 1}
EXC = ['sexp_alloc_tagged_aux', 'sexp_type_exception', 'sexp_xtype_exception', 'sexp_range_exception', 'sexp_user_exception', 'sexp_user_exception_ls']
FUNCTIONS = ['sexp_utf8_initial_byte_count', 'sexp_utf8_char_byte_count', 'sexp_utf8_encode_char', 'sexp_string_utf8_ref',
             'sexp_string_utf8_length', 'sexp_string_index_to_cursor', 'sexp_string_cursor_to_index', 'sexp_string_utf8_index_ref',
             'sexp_string_utf8_index_set', 'sexp_string_utf8_set', 'sexp_substring_op', 'sexp_utf8_substring_op',
             'sexp_string_concatenate_op', 'sexp_make_string_op', 'sexp_make_bytes_op']
US = {'rfc_dec_all.0': 8, 'sexp_string_utf8_length.0': 12, 'sexp_string_index_to_cursor.0': 8, 'sexp_make_bytes_op.0': 40}


def queries(tier):
    qs = []
    cap = 300 if tier == 'quick' else 1800
    nch = 2 if tier == 'quick' else 3
    store = 8 if tier == 'quick' else 12

    def q(name, defs, **kw):
        d = dict(defs, NCH=nch, STORE=store)
        qs.append(Query(name=name, harness='C12_string.c', units=UNITS, unit_defs=UD, defs=d, unwind=8, unwindset=US,
                        remove_bodies=EXC, cap=cap, backends=['cadical', 'minisat', 'kissat'], **kw))
    q('encode/decode[all scalar values]', {'OP': 1})
    q('string-ref[any string, any index]', {'OP': 2})
    q('string-set![any string, any index, any char]', {'OP': 3})
    q('string-set![offset 0]', {'OP': 3, 'OFFSET0': 1})
    q('index<->cursor', {'OP': 4})
    q('substring', {'OP': 5})
    q('string-concatenate', {'OP': 6})
    return qs


def bounds(tier):
    return {'strings': 'well-formed UTF-8 window of <= %d scalar values, every width mix, at a free offset in a free %d-byte store' % (2 if tier == 'quick' else 3, 8 if tier == 'quick' else 12),
            'chars': 'all 0x110000-0x800 scalar values (21 free bits)', 'indices': 'free, from -2 to length+2', 'unwind': US}


ASSUMPTIONS = R_ASSUME + ['strings are well-formed UTF-8 (RFC 3629) inside their window; bytes outside the window are free',
                          'exception constructors and sexp_alloc_tagged_aux modelled (harness/exc_models.c, env.c)']
OUTSIDE = ['histories longer than one operation (each operation is checked from an arbitrary valid string: inductive step)',
           'Scheme-level string-copy!/string-fill!/string->vector of init-7.scm / extras.scm, SRFI 130, (chibi string)',
           'port read/peek/write of characters (C12 part on ports: thorough extension)', 'ill-formed strings']
