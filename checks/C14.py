"""C14 — library imports: the C binding primitive sexp_env_import_op (eval.c)."""
from vf import Query
from common import R_ASSUME

UNITS = ['kit:kitfull.c', 'repo:eval.c', 'kit:env.c', 'kit:exc_models.c', 'kit:libc_models.c']
UD = {'KIT_REAL_SEXP': 1}
EXC = ['sexp_alloc_tagged_aux', 'sexp_type_exception', 'sexp_xtype_exception', 'sexp_range_exception', 'sexp_user_exception', 'sexp_user_exception_ls']
FUNCTIONS = ['sexp_env_import_op', 'sexp_env_cell', 'sexp_env_cell_loc', 'sexp_env_cell_loc1', 'sexp_env_rename', 'sexp_env_define', 'sexp_make_env_op']
CUTS = ['sexp_warn', 'sexp_apply', 'sexp_eval.*', 'sexp_analyze.*', 'analyze.*', 'sexp_compile.*', 'sexp_load.*']


def queries(tier):
    qs = []
    for shape in range(1, 7):
        for conflict in (0, 1):
            d = {'SHAPE': shape}
            if conflict:
                d['CONFLICT'] = 1
            qs.append(Query(name='import[shape %d%s]' % (shape, ', importer also binds S0' if conflict else ''), harness='C14_import.c', units=UNITS,
                            unit_defs=UD, defs=d, unwind=8, remove_bodies=EXC + ['sexp_warn'], cap=300, backends=['cadical', 'minisat'], functions=FUNCTIONS))
    return qs


BOUNDS = {'environments': 'exporter binds S0,S1; importer binds S2 (and S0 in the conflict variant); 4 distinct symbol objects',
          'import_lists': '(S1), ((S3 . S0)), ((S2 . S0)), (S0 S1), #f (everything), (S3) - each with and without a conflicting importer binding'}
ASSUMPTIONS = R_ASSUME + ['environment shapes are enumerated (concrete object graphs); the code executed is the real eval.c',
                          'sexp_warn (diagnostic output through ports) is cut and proved unreachable or skipped: see cuts']
OUTSIDE = ['only/except/rename/prefix algebra, export rewriting, once-only loading and the cyclic-import guard: lib/meta-7.scm (Scheme, not encodable)',
           'immutability of imported bindings (set! on an import): enforced by the analyzer/meta layer', 'syntactic closures as names']
