"""C15 — equal? / hash coherence (sexp.c sexp_equalp_bound, lib/srfi/69/hash.c)."""
from vf import Query
from common import R_ASSUME

UNITS = ['kit:kitfull.c', 'repo:lib/srfi/69/hash.c|sexp_string_hash=sexp_string_hash_srfi69', 'repo:bignum.c', 'kit:env.c', 'kit:exc_models.c', 'kit:libc_models.c']
UD = {'KIT_REAL_SEXP': 1}
EXC = ['sexp_alloc_tagged_aux', 'sexp_type_exception', 'sexp_xtype_exception', 'sexp_range_exception', 'sexp_user_exception', 'sexp_user_exception_ls']
KINDS = {'fixnum': 1, 'flonum': 2, 'big1': 3, 'big2': 4, 'string': 5, 'bytes': 6, 'pair': 7, 'vector': 8, 'symbol': 9, 'char': 10}
FUNCTIONS = ['sexp_equalp_op', 'sexp_equalp_bound', 'sexp_bignum_compare', 'sexp_flonum_eqv', 'sexp_hash', 'hash_one']
US = dict({'memcmp.0': 40}, **{'hash_one.%d' % i: 40 for i in range(6)})


def queries(tier):
    qs = []
    cap = 240 if tier == 'quick' else 1800

    def q(name, defs, backends=('cadical', 'minisat'), **kw):
        qs.append(Query(name=name, harness='C15_equal.c', units=UNITS, unit_defs=UD, defs=defs, unwind=6, unwindset=US,
                        remove_bodies=EXC, cap=cap, backends=list(backends), **kw))
    same = ['fixnum', 'flonum', 'big1', 'big2', 'string', 'bytes', 'pair', 'vector', 'symbol', 'char']
    for k in same:
        q('symmetry+contents[%s,%s]' % (k, k), {'CHECK': 1, 'AKIND': KINDS[k], 'BKIND': KINDS[k]})
        if tier != 'quick' or k in ('big2', 'string', 'flonum', 'pair'):
            q('transitive[%s]' % k, {'CHECK': 3, 'AKIND': KINDS[k], 'BKIND': KINDS[k]})
    mixed = [('fixnum', 'big1'), ('big1', 'big2'), ('string', 'bytes'), ('fixnum', 'flonum'), ('pair', 'vector'), ('string', 'symbol'),
             ('char', 'fixnum'), ('flonum', 'big1')]
    for a, b in (mixed[:4] if tier == 'quick' else mixed):
        q('symmetry[%s,%s]' % (a, b), {'CHECK': 1, 'AKIND': KINDS[a], 'BKIND': KINDS[b]})
    pf = ['cadical', 'minisat', 'kissat']
    for k in same:
        mods = [None] if tier != 'quick' else [None]
        q('equal=>hash[%s]' % k, {'CHECK': 2, 'AKIND': KINDS[k], 'BKIND': KINDS[k], 'MODCONST': '((1L<<61)-1)' if k != 'big2' else 8}, backends=pf)
    q('equal=>hash[big1,big2]', {'CHECK': 2, 'AKIND': KINDS['big1'], 'BKIND': KINDS['big2']}, backends=pf)
    # hash tables as finite maps: one insertion, then lookup / second insertion / deletion through another key object
    # (thorough tier only: with two hash chains per lookup no query of this group reached a verdict within the quick cap)
    for op, nm in (() if tier == 'quick' else ((1, 'insert A, lookup B, insert B'), (2, 'insert A, lookup B, delete B, lookup A'))):
        for ak, bk in ((1, 1), (1, 2), (2, 1), (2, 2)):
            qs.append(Query(name='hash-table[%s; A=big%d, B=big%d free words]' % (nm, ak, bk), harness='C15_table.c', units=UNITS, unit_defs=UD,
                            defs={'OP': op, 'AK': ak, 'BK': bk, 'NBUCKETS': 8 if tier == 'quick' else 2}, unwind=10, unwindset=dict(US, **{'strcmp.0': 12, 'mk_table.0': 12}),
                            remove_bodies=EXC, cuts=['sexp_apply', 'sexp_eval_string', 'sexp_print_exception_op'], cap=cap, backends=pf,
                            functions=['sexp_hash_table_cell', 'sexp_hash_table_delete', 'sexp_get_bucket', 'sexp_scan_bucket', 'sexp_regrow_hash_table', 'sexp_hash', 'sexp_equalp_op']))
    return qs


def bounds(tier):
    return {'kinds': 'fixnum (free), char, flonum (all 64 bits free), bignum 1 and 2 words (free words, leading zero word allowed, value outside fixnum range), '
                     'string of 2 bytes at a free offset into its own free 4-byte store, bytevector of 2 free bytes, pair and 2-vector of free fixnums, 2-char symbol',
            'hash': 'raw hash value (bound 0) compared for equality; range check with bound 2^61-1 (default) and 8', 'unwind': US}


ASSUMPTIONS = R_ASSUME + ['exception constructors replaced by harness/exc_models.c (not reached by these harnesses)',
                          'context built by hand: globals vector + type table copied from the real static _sexp_type_specs (kitfull.c)']
OUTSIDE = ['user-supplied hash/equality closures (call the VM)', '(chibi equiv) cycle-safe equal? and SRFI 125/128 wrappers (Scheme)',
           'nesting deeper than 1, containers longer than 2, strings longer than 2 bytes', 'hash-table histories longer than insert/lookup/insert or insert/lookup/delete/lookup; keys other than bignums in the table step']
