"""C15 — equal? / hash coherence (sexp.c sexp_equalp_bound, lib/srfi/69/hash.c)."""
import os, re
from vf import Query, REPO
from common import R_ASSUME

UNITS = ['kit:kitfull.c', 'repo:lib/srfi/69/hash.c|sexp_string_hash=sexp_string_hash_srfi69', 'repo:bignum.c', 'kit:env.c', 'kit:exc_models.c', 'kit:libc_models.c']
UD = {'KIT_REAL_SEXP': 1}
EXC = ['sexp_alloc_tagged_aux', 'sexp_type_exception', 'sexp_xtype_exception', 'sexp_range_exception', 'sexp_user_exception', 'sexp_user_exception_ls']
KINDS = {'fixnum': 1, 'flonum': 2, 'big1': 3, 'big2': 4, 'string': 5, 'bytes': 6, 'pair': 7, 'vector': 8, 'symbol': 9, 'char': 10}
FUNCTIONS = ['sexp_equalp_op', 'sexp_equalp_bound', 'sexp_bignum_compare', 'sexp_flonum_eqv', 'sexp_hash', 'hash_one']
US = dict({'memcmp.0': 40}, **{'hash_one.%d' % i: 40 for i in range(6)})


UNITS_TAB = ['kit:kitfull.c', 'work:hash_ind.c|sexp_string_hash=sexp_string_hash_srfi69', 'repo:bignum.c', 'kit:env.c', 'kit:exc_models.c', 'kit:libc_models.c']
HASH_DEF_RE = re.compile(r'^sexp\s+sexp_hash\s*\(\s*sexp\s+ctx\s*,\s*sexp\s+self\s*,\s*sexp_sint_t\s+n\s*,\s*sexp\s+obj\s*,\s*sexp\s+bound\s*\)\s*\{', re.M)


def prepare(run, tier):
    """Table-step queries are compositional (DESIGN R16): in a copy of the current hash.c only the *definition* of
    sexp_hash is renamed sexp_hash_body; the table code's calls bind to a specification in the harness (an arbitrary
    function of the key that agrees on equal? keys -- which is what the equal=>hash queries establish for the body)."""
    src = os.path.join(REPO, 'lib/srfi/69/hash.c')
    txt = open(src, errors='replace').read()
    new, n = HASH_DEF_RE.subn('sexp sexp_hash_body (sexp ctx, sexp self, sexp_sint_t n, sexp obj, sexp bound) {', txt)
    if n != 1:
        raise RuntimeError('C15: definition of sexp_hash not found exactly once in hash.c (%d)' % n)
    # R12: `x == SEXP_ONE` on a word that holds SEXP_TWO does not fold in symex (two integer-address pointers); the equivalent
    # offset-and-value test does.  Same value on every input.
    new, n2 = re.subn(r'\b(hash_fn|eq_fn) == (SEXP_ONE|SEXP_TWO)\b', r'verif_imm_eq((const void*)(\1), (const void*)(\2))', new)
    run.extra_assumptions.append('R12: %d tests of the form hash_fn/eq_fn == SEXP_ONE/SEXP_TWO in the hash.c copy re-expressed as verif_imm_eq (same value on every input)' % n2)
    with open(os.path.join(run.work, 'hash_ind.c'), 'w') as f:
        f.write('#line 1 "%s"\n' % src)
        f.write(new)
    run.src_dirs[os.path.join(run.work, 'hash_ind.c')] = os.path.dirname(src)
    run.extra_assumptions.append('hash-table queries: equal? on the two keys is answered by a per-query constant (the key contents are constrained to match it) and calls to sexp_hash from the table code are answered by its specification (any function of the key '
                                 'that gives equal? keys the same value, reduced modulo the bound); the real hash is the subject of the equal=>hash queries')


def queries(tier):
    qs = []
    cap = 240 if tier == 'quick' else 1800

    def q(name, defs, backends=('cadical', 'minisat'), **kw):
        qs.append(Query(name=name, harness='C15_equal.c', units=UNITS, unit_defs=UD, defs=defs, unwind=6, unwindset=US,
                        remove_bodies=EXC, cap=cap, backends=list(backends), **kw))
    same = ['fixnum', 'flonum', 'big1', 'big2', 'string', 'bytes', 'pair', 'vector', 'symbol', 'char']
    for k in same:
        q('symmetry+contents[%s,%s]' % (k, k), {'CHECK': 1, 'AKIND': KINDS[k], 'BKIND': KINDS[k]})
        if tier != 'quick' or k in ('big2', 'string', 'flonum', 'pair'):
            q('transitive[%s]' % k, {'CHECK': 3, 'AKIND': KINDS[k], 'BKIND': KINDS[k]})
    mixed = [('fixnum', 'big1'), ('big1', 'big2'), ('string', 'bytes'), ('fixnum', 'flonum'), ('pair', 'vector'), ('string', 'symbol'),
             ('char', 'fixnum'), ('flonum', 'big1')]
    for a, b in (mixed[:4] if tier == 'quick' else mixed):
        q('symmetry[%s,%s]' % (a, b), {'CHECK': 1, 'AKIND': KINDS[a], 'BKIND': KINDS[b]})
    pf = ['cadical', 'minisat', 'kissat']
    for k in same:
        mods = [None] if tier != 'quick' else [None]
        q('equal=>hash[%s]' % k, {'CHECK': 2, 'AKIND': KINDS[k], 'BKIND': KINDS[k], 'MODCONST': '((1L<<61)-1)' if k != 'big2' else 8}, backends=pf)
    q('equal=>hash[big1,big2]', {'CHECK': 2, 'AKIND': KINDS['big1'], 'BKIND': KINDS['big2']}, backends=pf)
    # hash tables as finite maps: one insertion, then lookup / second insertion / deletion through another key object; 2 buckets, so that
    # collisions, distinct buckets and (thorough: regrow) all occur; sexp_hash is answered by its specification (see prepare)
    for op, nm in ((1, 'insert A, lookup B, insert B'), (2, 'insert A, lookup B, delete B, lookup A')):
        for ak, bk in (((1, 1), (1, 2)) if tier == 'quick' else ((1, 1), (1, 2), (2, 1), (2, 2))):
            for ha, hb, same in ((0, 0, 1), (0, 0, 0), (0, 1, 0), (1, 0, 0), (1, 1, 1), (1, 1, 0)):
                if tier == 'quick' and ha == 1 and hb == 1:
                    continue
                qs.append(Query(name='hash-table[%s; A=big%d, B=big%d free words; hash residues %d,%d; keys %s]' % (nm, ak, bk, ha, hb, 'equal?' if same else 'different'),
                                harness='C15_table.c', units=UNITS_TAB, unit_defs=UD,
                                defs={'OP': op, 'AK': ak, 'BK': bk, 'NBUCKETS': 2, 'HASH_MODEL': 1, 'HASH_A': ha, 'HASH_B': hb, 'SAME': same}, unwind=10,
                                unwindset=dict(US, **{'strcmp.0': 12, 'mk_table.0': 12}),
                                remove_bodies=EXC + ['sexp_equalp_op'], cuts=['sexp_apply', 'sexp_eval_string', 'sexp_print_exception_op'], cap=cap, backends=pf,
                                functions=['sexp_hash_table_cell', 'sexp_hash_table_delete', 'sexp_get_bucket', 'sexp_scan_bucket', 'sexp_regrow_hash_table', 'sexp_equalp_op']))
    return qs


def bounds(tier):
    return {'kinds': 'fixnum (free), char, flonum (all 64 bits free), bignum 1 and 2 words (free words, leading zero word allowed, value outside fixnum range), '
                     'string of 2 bytes at a free offset into its own free 4-byte store, bytevector of 2 free bytes, pair and 2-vector of free fixnums, 2-char symbol',
            'hash': 'raw hash value (bound 0) compared for equality; range check with bound 2^61-1 (default) and 8', 'unwind': US,
            'table': '2 buckets (no regrow), two bignum keys; hash residues (0|1 each) and equal?-outcome enumerated per query; histories insert A/lookup B/insert B/lookup A and insert A/lookup B/delete B/lookup A'}


ASSUMPTIONS = R_ASSUME + ['exception constructors replaced by harness/exc_models.c (not reached by these harnesses)',
                          'context built by hand: globals vector + type table copied from the real static _sexp_type_specs (kitfull.c)']
OUTSIDE = ['user-supplied hash/equality closures (call the VM)', '(chibi equiv) cycle-safe equal? and SRFI 125/128 wrappers (Scheme)',
           'nesting deeper than 1, containers longer than 2, strings longer than 2 bytes', 'hash-table histories longer than insert/lookup/insert or insert/lookup/delete/lookup; regrow; the real hash / equal? inside the table step (answered by specifications there, checked by their own queries)']
