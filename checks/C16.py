"""C16 — weak references track reachability: real mark + weak pass + sweep on a symbolic heap (ephemerons)."""
from vf import Query
from common import R_ASSUME
import re, os
from vf import REPO

UNITS = ['kit:kitfull.c', 'kit:env.c', 'kit:exc_models.c', 'kit:libc_models.c']
UD = {'KIT_REAL_SEXP': 1, 'KIT_REAL_GC': 1}
EXC = ['sexp_alloc_tagged_aux', 'sexp_type_exception', 'sexp_xtype_exception', 'sexp_range_exception', 'sexp_user_exception', 'sexp_user_exception_ls']
FUNCTIONS = ['sexp_mark', 'sexp_mark_one', 'sexp_mark_one_start', 'sexp_mark_stack_push', 'sexp_mark_stack_pop', 'sexp_reset_weak_references',
             'sexp_mark_ephemeron_values', 'sexp_sweep', 'sexp_allocated_bytes']


def queries(tier):
    qs = []
    cap = 600 if tier == 'quick' else 3000
    # the ephemeron value pass exists in the tree once the fix for F-C16-a is in; the harness calls the same sequence as sexp_gc
    have = 'sexp_mark_ephemeron_values' in open(os.path.join(REPO, 'gc.c')).read()
    for kr in (0, 1):
        for vk in (None, 0, 1):
            d = {'MODE': 3 if vk is None else 4, 'K': 4, 'KEY_REACHABLE': kr}
            if vk is not None:
                d['VALUE_REFS_KEY'] = vk
            if have:
                d['HAVE_EPHEMERON_PASS'] = 1
            nm = 'key %s' % ('reachable' if kr else 'unreachable') + ('' if vk is None else ', value %s the key' % ('references' if vk else 'does not reference'))
            qs.append(Query(name='gc-step[ephemeron: %s]' % nm, harness='C10_heap.c', units=UNITS, unit_defs=UD, defs=d, unwind=8,
                            unwindset={'memset.0': 6, 'memset.1': 2}, remove_bodies=EXC, cap=cap, backends=['cadical', 'minisat'],
                            functions=FUNCTIONS))
    for kr in (0, 1):
        d = {'MODE': 5, 'K': 6, 'KEY_REACHABLE': kr}
        if have:
            d['HAVE_EPHEMERON_PASS'] = 1
        qs.append(Query(name='gc-step[chain of two ephemerons, first key %s]' % ('reachable' if kr else 'unreachable'), harness='C10_heap.c',
                        units=UNITS, unit_defs=UD, defs=d, unwind=10, unwindset={'memset.0': 6, 'memset.1': 2}, remove_bodies=EXC, cap=cap,
                        backends=['cadical', 'minisat'], functions=FUNCTIONS))
    # finalizers: file-descriptor object + port over it; reachability of each per query, flags and share count free
    for kind, knm in ((0, 'input port'), (1, 'output port, pending bytes, flush may fail'), (2, 'output port over a FILE stream, flush may fail')):
        for pr, fr in ((0, 0), (0, 1), (1, 0)):
            for after in (0, 1):
                if kind and after:
                    continue
                d = {'MODE': 6, 'K': 6, 'PORT_REACHABLE': pr, 'FD_REACHABLE': fr, 'PORT_KIND': kind}
                if after:
                    d['FD_AFTER_PORT'] = 1
                nm = '%s %s, descriptor %s, descriptor %s the port in the heap' % (knm, 'reachable' if pr else 'unreachable', 'reachable' if (fr or pr) else 'unreachable', 'behind' if after else 'before')
                qs.append(Query(name='gc-step[finalizers: %s]' % nm, harness='C10_heap.c', units=UNITS, unit_defs=UD, defs=d, unwind=10,
                                unwindset={'memset.0': 6, 'memset.1': 2, 'memmove.0': 6, 'memmove.1': 6, 'memmove.2': 10, 'memmove.3': 10}, remove_bodies=EXC, cap=cap, backends=['cadical', 'minisat'],
                                functions=FUNCTIONS + ['sexp_finalize', 'sexp_finalize_port', 'sexp_finalize_fileno', 'sexp_buffered_flush']))
    return qs


BOUNDS = {'finalizers': 'sentinel + 6 slots: root pair, spare pair, file-descriptor object, port over it (3 slots: input, output with pending bytes and a final flush that may fail, or output over a FILE stream); reachability per query; open/no-close flags of both and the share count (1|2) free; close() counted; finalize, sweep, finalize again',
          'heap': 'sentinel + 4 slots: root pair, ephemeron, key object, value object; the root references the key or not (free), the value refers back to the key or not (free)',
          'sequence': 'sexp_mark from the root, ephemeron value pass, sexp_reset_weak_references, sexp_sweep (the body of sexp_gc without the walk over the context object)'}
ASSUMPTIONS = R_ASSUME + ['gc.c textually included; marking starts from a root object inside the heap instead of the context (the context walk is the same sexp_mark_one code on a much larger graph)']
OUTSIDE = ['sockets (shutdown), string/custom output ports', 'collect-and-retry on EMFILE (needs real descriptors)',
           'weak hash tables written in Scheme', 'more than two ephemerons']
