"""C17 — bitwise operations are two's-complement exact (lib/srfi/151/bit.c)."""
from vf import Query
from common import R_ASSUME, ENV_MODEL

UNITS = ['repo:lib/srfi/151/bit.c', 'repo:bignum.c', 'kit:env.c']
OPS = {'and': 1, 'ior': 2, 'xor': 3}
FUNCTIONS = ['sexp_bit_and', 'sexp_bit_ior', 'sexp_bit_xor', 'sexp_arithmetic_shift', 'sexp_bit_count',
             'sexp_integer_length', 'sexp_bit_set_p', 'sexp_set_twos_complement', 'sexp_twos_complement',
             'sexp_fixnum_to_twos_complement', 'sexp_copy_bignum', 'sexp_bignum_normalize', 'sexp_bignum_fxadd',
             'sexp_fixnum_to_bignum', 'sexp_make_bignum']
SHIFTS_Q = [1, 63, 64, 65, -1, -63, -64, -65]
SHIFTS_T = SHIFTS_Q + [2, 62, 127, 128, 129, -2, -62, -127, -128, -129, -200]
BITS_Q = [0, 1, 61, 62, 63, 64, 65, 127, 128]
BITS_T = BITS_Q + [2, 60, 126, 129, 191, 192, 200, 300]


def queries(tier):
    qs = []
    maxk = 2 if tier == 'quick' else 3
    cap = 240 if tier == 'quick' else 1500
    for op, n in OPS.items():
        for xk in range(0, maxk + 1):
            for yk in range(0, maxk + 1):
                if tier == 'quick' and xk + yk > 3:
                    continue
                qs.append(Query(name='bit_%s[x=%d,y=%d]' % (op, xk, yk), harness='C17_bit.c', units=UNITS,
                                defs={'OP': n, 'XK': xk, 'YK': yk, 'KIT_MAXW': 4}, unwind=6, cap=cap,
                                backends=['cadical', 'minisat', 'kissat'], functions=['sexp_bit_' + op]))
    for xk in range(0, maxk + 1):
        for c in (SHIFTS_Q if tier == 'quick' else SHIFTS_T):
            qs.append(Query(name='shift[x=%d,c=%d]' % (xk, c), harness='C17_bit.c', units=UNITS,
                            defs={'OP': 4, 'XK': xk, 'YK': 0, 'SHIFT': '(%d)' % c, 'KIT_MAXW': 6, 'WIDE_BITS': 448},
                            unwind=8, unwindset={'log2i.0': 66}, cap=cap, backends=['cadical', 'minisat'],
                            functions=['sexp_arithmetic_shift']))
        qs.append(Query(name='bit_count[x=%d]' % xk, harness='C17_bit.c', units=UNITS,
                        defs={'OP': 5, 'XK': xk, 'YK': 0}, unwind=6,
                        unwindset={'wide_popcount.0': 64 * 4 + 1}, cap=cap, backends=['cadical', 'minisat', 'kissat'],
                        functions=['sexp_bit_count']))
        qs.append(Query(name='integer_length[x=%d]' % xk, harness='C17_bit.c', units=UNITS,
                        defs={'OP': 6, 'XK': xk, 'YK': 0}, unwind=6,
                        unwindset={'wide_length.0': 64 * 4 + 1}, cap=cap, backends=['cadical', 'minisat', 'kissat'],
                        functions=['sexp_integer_length']))
        for b in (BITS_Q if tier == 'quick' else BITS_T):
            qs.append(Query(name='bit_set_p[x=%d,i=%d]' % (xk, b), harness='C17_bit.c', units=UNITS,
                            defs={'OP': 7, 'XK': xk, 'YK': 0, 'SHIFT': b}, unwind=6, cap=cap,
                            backends=['cadical', 'minisat'], functions=['sexp_bit_set_p']))
    return qs


def bounds(tier):
    return {'operand_kinds': 'fixnum (all 62 value bits free) or bignum with exactly k words, k<=%d, every word free, either sign, '
                             'leading zero words allowed, value not representable as fixnum' % (2 if tier == 'quick' else 3),
            'shift_counts': SHIFTS_Q if tier == 'quick' else SHIFTS_T,
            'bit_indices': BITS_Q if tier == 'quick' else BITS_T,
            'oracle': '__CPROVER_bitvector[320] (shifts: 448) signed two\'s complement; & | ^ << >> popcount length bit-test',
            'unwind': 'loops over bignum words unwound to 6/8 with unwinding assertions; log2i 66'}


ASSUMPTIONS = R_ASSUME + [ENV_MODEL]
OUTSIDE = ['operands wider than the stated word count', 'shift counts / bit indices other than the listed word-boundary constants',
           'the n-ary and bit-field wrappers of lib/srfi/151/bitwise.scm (Scheme compositions of these primitives)',
           'heap exhaustion']
