"""C17 — bitwise operations are two's-complement exact (lib/srfi/151/bit.c)."""
from vf import Query
from common import R_ASSUME, ENV_MODEL

UNITS = ['repo:lib/srfi/151/bit.c', 'repo:bignum.c', 'kit:env.c', 'kit:libc_models.c']
OPS = {'and': 1, 'ior': 2, 'xor': 3}
FUNCTIONS = ['sexp_bit_and', 'sexp_bit_ior', 'sexp_bit_xor', 'sexp_arithmetic_shift', 'sexp_bit_count',
             'sexp_integer_length', 'sexp_bit_set_p', 'sexp_set_twos_complement', 'sexp_twos_complement',
             'sexp_fixnum_to_twos_complement', 'sexp_copy_bignum', 'sexp_bignum_normalize', 'sexp_bignum_fxadd',
             'sexp_fixnum_to_bignum', 'sexp_make_bignum']
SHIFTS_Q = [1, 63, 64, 65, -1, -63, -64, -65]
SHIFTS_T = SHIFTS_Q + [2, 62, 127, 128, 129, -2, -62, -127, -128, -129, -200]
BITS_Q = [0, 1, 61, 62, 63, 64, 65, 127, 128]
BITS_T = BITS_Q + [2, 60, 126, 129, 191, 192, 200, 300]


FIX_Q = [0, -1, 1, 5, -6, (1 << 62) - 1, -(1 << 62)]
FIX_T = FIX_Q + [2, -2, 1 << 31, (1 << 32) - 1, 1 << 32, -(1 << 32), (1 << 62) - 2, 0x1555555555555555, -0x0aaaaaaaaaaaaaab,
                 1 << 61, -(1 << 61) - 1]


def cval(v):
    return '(%dL)' % v if v > -(1 << 62) else '(-%dL-1)' % ((1 << 62) - 1)


def queries(tier):
    qs = []
    maxk = 2 if tier == 'quick' else 3
    cap = 240 if tier == 'quick' else 1800
    fix = FIX_Q[:4] if tier == 'quick' else FIX_T
    pf = ['cadical', 'minisat', 'kissat']
    pf2 = ['cadical', 'minisat']

    def q(name, defs, fn, unwind=6, unwindset=None, backends=pf2):
        qs.append(Query(name=name, harness='C17_bit.c', units=UNITS, defs=defs, unwind=unwind, unwindset=unwindset or {},
                        cap=cap, backends=backends, functions=[fn]))
    for op, n in OPS.items():
        fn = 'sexp_bit_' + op
        # fully symbolic fixnum operands (all 62 value bits free)
        q('bit_%s[fixnum,fixnum]' % op, {'OP': n, 'XK': 0, 'YK': 0}, fn)
        for k in range(1, maxk + 1):
            q('bit_%s[fixnum,big%d]' % (op, k), {'OP': n, 'XK': 0, 'YK': k}, fn, backends=pf)
            q('bit_%s[big%d,fixnum]' % (op, k), {'OP': n, 'XK': k, 'YK': 0}, fn, backends=pf)
            # boundary-lattice constants as well: cheap, and they keep deciding if a change makes the
            # symbolic-fixnum query too expensive (symbolic kind tests, DESIGN R10)
            for v in fix:
                q('bit_%s[fix=%d,big%d]' % (op, v, k), {'OP': n, 'XK': 0, 'YK': k, 'XV': cval(v)}, fn)
                q('bit_%s[big%d,fix=%d]' % (op, k, v), {'OP': n, 'XK': k, 'YK': 0, 'YV': cval(v)}, fn)
        for xk in range(1, maxk + 1):
            for yk in range(1, maxk + 1):
                if tier == 'quick' and xk + yk > 3:
                    continue
                q('bit_%s[big%d,big%d]' % (op, xk, yk), {'OP': n, 'XK': xk, 'YK': yk}, fn, backends=pf)
    shifts = SHIFTS_Q if tier == 'quick' else SHIFTS_T
    def sd(k, c):   # oracle width: operand words + words shifted in + one spare word
        w = max(1, k) + (c // 64 + 2 if c > 0 else 1)
        return {'KIT_MAXW': w, 'WIDE_BITS': 64 * w + 64}
    for c in shifts:
        d = dict(OP=4, YK=0, SHIFT='(%d)' % c)
        us = {'log2i.0': 66}
        if tier != 'quick' or c in (1, 63):
            q('shift[fixnum,c=%d]' % c, dict(d, XK=0, **sd(0, c)), 'sexp_arithmetic_shift', unwind=8, unwindset=us, backends=pf)
        for v in fix:
            if v == 0 and c > 1:
                continue
            q('shift[fix=%d,c=%d]' % (v, c), dict(d, XK=0, XV=cval(v), **sd(0, c)), 'sexp_arithmetic_shift', unwind=8, unwindset=us)
        for xk in range(1, maxk + 1):
            if tier == 'quick' and xk > 1 and c < 0:
                continue    # 100-200 s each: thorough tier
            q('shift[big%d,c=%d]' % (xk, c), dict(d, XK=xk, **sd(xk, c)), 'sexp_arithmetic_shift', unwind=8, unwindset=us, backends=pf)
    for xk in range(0, maxk + 1):
        kn = 'fixnum' if xk == 0 else 'big%d' % xk
        mw = max(1, xk)
        if tier == 'quick' and xk > 1:
            continue
        q('bit_count[%s]' % kn, {'OP': 5, 'XK': xk, 'YK': 0, 'KIT_MAXW': mw, 'WIDE_BITS': 64 * mw + 64}, 'sexp_bit_count',
          unwindset={'wide_popcount.0': 64 * mw + 1}, backends=pf)
        q('integer_length[%s]' % kn, {'OP': 6, 'XK': xk, 'YK': 0, 'KIT_MAXW': mw, 'WIDE_BITS': 64 * mw + 64}, 'sexp_integer_length',
          unwindset={'wide_length.0': 64 * mw + 1}, backends=pf)
        for b in (BITS_Q if tier == 'quick' else BITS_T):
            q('bit_set_p[%s,i=%d]' % (kn, b), {'OP': 7, 'XK': xk, 'YK': 0, 'SHIFT': b}, 'sexp_bit_set_p')
    return qs


def bounds(tier):
    return {'fixnum_lattice': FIX_Q[:4] if tier == 'quick' else FIX_T,
            'operand_kinds': 'fixnum (all 62 value bits free; additionally each constant of fixnum_lattice as its own query) or bignum with exactly k words, k<=%d, every word free, either sign, '
                             'leading zero words allowed, value not representable as fixnum' % (2 if tier == 'quick' else 3),
            'shift_counts': SHIFTS_Q if tier == 'quick' else SHIFTS_T,
            'bit_indices': BITS_Q if tier == 'quick' else BITS_T,
            'oracle': '__CPROVER_bitvector[320] (shifts: 448) signed two\'s complement; & | ^ << >> popcount length bit-test',
            'unwind': 'loops over bignum words unwound to 6/8 with unwinding assertions; log2i 66'}


ASSUMPTIONS = R_ASSUME + [ENV_MODEL]
OUTSIDE = ['operands wider than the stated word count', 'shift counts / bit indices other than the listed word-boundary constants',
           'the n-ary and bit-field wrappers of lib/srfi/151/bitwise.scm (Scheme compositions of these primitives)',
           'heap exhaustion']
