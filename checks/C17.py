"""C17 — bitwise operations are two's-complement exact (lib/srfi/151/bit.c)."""
from vf import Query
from common import R_ASSUME, ENV_MODEL

UNITS = ['repo:lib/srfi/151/bit.c', 'repo:bignum.c', 'kit:env.c']
OPS = {'and': 1, 'ior': 2, 'xor': 3}
FUNCTIONS = ['sexp_bit_and', 'sexp_bit_ior', 'sexp_bit_xor', 'sexp_arithmetic_shift', 'sexp_bit_count',
             'sexp_integer_length', 'sexp_bit_set_p', 'sexp_set_twos_complement', 'sexp_twos_complement',
             'sexp_fixnum_to_twos_complement', 'sexp_copy_bignum', 'sexp_bignum_normalize', 'sexp_bignum_fxadd',
             'sexp_fixnum_to_bignum', 'sexp_make_bignum']
SHIFTS_Q = [1, 63, 64, 65, -1, -63, -64, -65]
SHIFTS_T = SHIFTS_Q + [2, 62, 127, 128, 129, -2, -62, -127, -128, -129, -200]
BITS_Q = [0, 1, 61, 62, 63, 64, 65, 127, 128]
BITS_T = BITS_Q + [2, 60, 126, 129, 191, 192, 200, 300]


FIX_Q = [0, -1, 1, 5, -6, (1 << 61) - 1, -(1 << 61)]
FIX_T = FIX_Q + [2, -2, 1 << 31, (1 << 32) - 1, 1 << 32, -(1 << 32), (1 << 61) - 2, 0x1555555555555555, -0x0aaaaaaaaaaaaaab,
                 1 << 60, -(1 << 60) - 1]


def cval(v):
    return '(%dL)' % v if v > -(1 << 61) else '(-%dL-1)' % ((1 << 61) - 1)


def queries(tier):
    qs = []
    maxk = 2 if tier == 'quick' else 3
    cap = 300 if tier == 'quick' else 1800
    fix = FIX_Q if tier == 'quick' else FIX_T
    pf = ['cadical', 'minisat', 'kissat']
    for op, n in OPS.items():
        # fixnum x fixnum: both lattice constants (one-line real path; kind tests must fold, see R10)
        for xv in fix[:5]:
            for yv in fix[:5]:
                qs.append(Query(name='bit_%s[fix=%d,fix=%d]' % (op, xv, yv), harness='C17_bit.c', units=UNITS,
                                defs={'OP': n, 'XK': 0, 'YK': 0, 'XV': cval(xv), 'YV': cval(yv)}, unwind=6, cap=cap,
                                backends=['minisat'], functions=['sexp_bit_' + op]))
        for k in range(1, maxk + 1):
            for v in fix:
                for order in (0, 1):
                    d = {'OP': n, 'XK': 0, 'YK': k, 'XV': cval(v)} if order == 0 else {'OP': n, 'XK': k, 'YK': 0, 'YV': cval(v)}
                    nm = 'bit_%s[fix=%d,big%d]' % (op, v, k) if order == 0 else 'bit_%s[big%d,fix=%d]' % (op, k, v)
                    qs.append(Query(name=nm, harness='C17_bit.c', units=UNITS, defs=d, unwind=6, cap=cap, backends=pf,
                                    functions=['sexp_bit_' + op]))
        for xk in range(1, maxk + 1):
            for yk in range(1, maxk + 1):
                if tier == 'quick' and xk + yk > 3:
                    continue
                qs.append(Query(name='bit_%s[big%d,big%d]' % (op, xk, yk), harness='C17_bit.c', units=UNITS,
                                defs={'OP': n, 'XK': xk, 'YK': yk}, unwind=6, cap=cap, backends=pf,
                                functions=['sexp_bit_' + op]))
    shifts = SHIFTS_Q if tier == 'quick' else SHIFTS_T
    for c in shifts:
        for v in fix:
            if v == 0 and c > 1:
                continue
            qs.append(Query(name='shift[fix=%d,c=%d]' % (v, c), harness='C17_bit.c', units=UNITS,
                            defs={'OP': 4, 'XK': 0, 'YK': 0, 'XV': cval(v), 'SHIFT': '(%d)' % c, 'KIT_MAXW': 6, 'WIDE_BITS': 448},
                            unwind=8, unwindset={'log2i.0': 66}, cap=cap, backends=['cadical', 'minisat'],
                            functions=['sexp_arithmetic_shift']))
        for xk in range(1, maxk + 1):
            qs.append(Query(name='shift[big%d,c=%d]' % (xk, c), harness='C17_bit.c', units=UNITS,
                            defs={'OP': 4, 'XK': xk, 'YK': 0, 'SHIFT': '(%d)' % c, 'KIT_MAXW': 6, 'WIDE_BITS': 448},
                            unwind=8, unwindset={'log2i.0': 66}, cap=cap, backends=pf,
                            functions=['sexp_arithmetic_shift']))
    for xk in range(0, maxk + 1):
        kn = 'fixnum' if xk == 0 else 'big%d' % xk
        qs.append(Query(name='bit_count[%s]' % kn, harness='C17_bit.c', units=UNITS,
                        defs={'OP': 5, 'XK': xk, 'YK': 0}, unwind=6,
                        unwindset={'wide_popcount.0': 64 * 4 + 1}, cap=cap, backends=pf,
                        functions=['sexp_bit_count']))
        qs.append(Query(name='integer_length[%s]' % kn, harness='C17_bit.c', units=UNITS,
                        defs={'OP': 6, 'XK': xk, 'YK': 0}, unwind=6,
                        unwindset={'wide_length.0': 64 * 4 + 1}, cap=cap, backends=pf,
                        functions=['sexp_integer_length']))
        for b in (BITS_Q if tier == 'quick' else BITS_T):
            qs.append(Query(name='bit_set_p[%s,i=%d]' % (kn, b), harness='C17_bit.c', units=UNITS,
                            defs={'OP': 7, 'XK': xk, 'YK': 0, 'SHIFT': b}, unwind=6, cap=cap,
                            backends=['cadical', 'minisat'], functions=['sexp_bit_set_p']))
    return qs


def bounds(tier):
    return {'fixnum_lattice': FIX_Q if tier == 'quick' else FIX_T,
            'operand_kinds': 'fixnum (binary ops and shift: a constant from fixnum_lattice per query; unary ops: all 62 value bits free) or bignum with exactly k words, k<=%d, every word free, either sign, '
                             'leading zero words allowed, value not representable as fixnum' % (2 if tier == 'quick' else 3),
            'shift_counts': SHIFTS_Q if tier == 'quick' else SHIFTS_T,
            'bit_indices': BITS_Q if tier == 'quick' else BITS_T,
            'oracle': '__CPROVER_bitvector[320] (shifts: 448) signed two\'s complement; & | ^ << >> popcount length bit-test',
            'unwind': 'loops over bignum words unwound to 6/8 with unwinding assertions; log2i 66'}


ASSUMPTIONS = R_ASSUME + [ENV_MODEL]
OUTSIDE = ['operands wider than the stated word count', 'shift counts / bit indices other than the listed word-boundary constants',
           'the n-ary and bit-field wrappers of lib/srfi/151/bitwise.scm (Scheme compositions of these primitives)',
           'heap exhaustion']
