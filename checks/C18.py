"""C18 — the C sort of lib/srfi/95/qsort.c (containers in Scheme are outside, see OUTSIDE)."""
from vf import Query
from common import R_ASSUME

UNITS = ['kit:kitfull.c', 'repo:lib/srfi/95/qsort.c', 'repo:bignum.c', 'kit:env.c', 'kit:exc_models.c', 'kit:libc_models.c']
UD = {'KIT_REAL_SEXP': 1}
EXC = ['sexp_alloc_tagged_aux', 'sexp_type_exception', 'sexp_xtype_exception', 'sexp_range_exception', 'sexp_user_exception', 'sexp_user_exception_ls']
FUNCTIONS = ['sexp_sort_x', 'sexp_merge_sort', 'sexp_merge_sort_less', 'sexp_object_compare', 'sexp_object_compare_op',
             'sexp_vector_copy_to_list', 'sexp_list_to_vector', 'sexp_make_vector_op', 'sexp_listp_op']
# exact-integer / ratio / complex comparison arms are not reachable with the element kinds used here
CUTS = ['sexp_compare', 'sexp_ratio_compare', 'sexp_write_to_string', 'sexp_isymbol_compare']


def queries(tier):
    qs = []
    cap = 300 if tier == 'quick' else 1800
    nmax = 5 if tier == 'quick' else 7

    def q(name, defs, unwind, **kw):
        qs.append(Query(name=name, harness='C18_sort.c', units=UNITS, unit_defs=UD, defs=defs, unwind=unwind,
                        remove_bodies=EXC, cuts=CUTS, cap=cap, backends=['cadical', 'minisat', 'kissat'], **kw))
    for n in range(0, nmax + 1):
        for lst in (0, 1):
            d = {'N': n}
            if lst:
                d['LIST'] = 1
            nm = 'list' if lst else 'vector'
            q('sort[object-cmp,%s,n=%d]' % (nm, n), dict(d, MODE=1), unwind=n + 3)
            q('sort[less=procedure,%s,n=%d]' % (nm, n), dict(d, MODE=2), unwind=n + 3)
            if n >= 2 and (tier != 'quick' or n <= 4) and not lst:
                q('sort[less raises,%s,n=%d]' % (nm, n), dict(d, MODE=3), unwind=n + 3)
    # fixnum elements on the object-cmp path: per-query constants from the lattice MIN_FIXNUM,-1,0,1,MAX_FIXNUM (R10)
    import itertools
    names = ['min', '-1', '0', '1', 'max']
    for mid in (1, 2, 3):
        for e in itertools.permutations((0, mid, 4)):
            lab = ','.join(names[i] for i in e)
            d = {'E0': e[0], 'E1': e[1], 'E2': e[2]}
            q('sort[object-cmp,fixnum lattice (%s),vector,n=3]' % lab, dict(d, N=3, MODE=5), unwind=6)
            if mid == 2:
                q('sort[object-cmp,fixnum lattice (%s),list,n=3]' % lab, dict(d, N=3, MODE=5, LIST=1), unwind=6)
                q('object-cmp laws[fixnum lattice (%s)]' % lab, dict(d, MODE=4, KIND=4, N=1), unwind=5)
    for kind, nm in ((1, 'flonum'), (2, 'bignum'), (3, 'string')):
        q('object-cmp laws[%s]' % nm, {'MODE': 4, 'KIND': kind, 'N': 1}, unwind=5, unwindset={'strcmp.0': 5})
    return qs


def bounds(tier):
    return {'n': '0..%d elements, vector and list inputs' % (5 if tier == 'quick' else 7),
            'elements': 'object-cmp path: distinct flonum objects with free non-NaN values, and (n=3) fixnums from the lattice MIN_FIXNUM,-1,0,1,MAX_FIXNUM as per-query constants (not free values); comparator path: fixnums key*8+index with a free 2-bit key '
                        '(every strict weak order on n<=4 classes, heavy duplication), comparator = environment function ordering by key',
            'comparator_exception': 'raised at a free call number 1..n^2'}


ASSUMPTIONS = R_ASSUME + ['sexp_apply is an environment function (the VM is not linked): returns key(a) < key(b), or the exception object at the chosen call',
                          'exception constructors and sexp_alloc_tagged_aux modelled (harness/exc_models.c, env.c)',
                          'R5 cuts proved unreachable: ' + ', '.join(CUTS)]
OUTSIDE = ['SRFI 1/133/113/146/101/117/134, (chibi iset), SRFI 132 sorts: Scheme code, no C kernel (not encodable by this technique)',
           'key procedures (key != #f)', 'more than 7 elements', 'object-cmp on mixed kinds / nested containers / immediate symbols']
