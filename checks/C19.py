"""C19 — codec kernels in C: mini-float codecs of sexp.c (the UTF-8 codec is covered by C12)."""
import os, subprocess
from vf import Query, REPO, HARNESS
from common import R_ASSUME

UNITS = ['kit:kitfull.c', 'kit:env.c', 'kit:exc_models.c', 'kit:libc_models.c']
UD = {'KIT_REAL_SEXP': 1}
EXC = ['sexp_alloc_tagged_aux', 'sexp_type_exception', 'sexp_xtype_exception', 'sexp_range_exception', 'sexp_user_exception', 'sexp_user_exception_ls']
FUNCTIONS = ['sexp_quarter_to_double', 'sexp_double_to_quarter', 'sexp_half_to_double', 'sexp_double_to_half']


BV_UNITS = ['work:bytevector.c', 'kit:kitfull.c', 'repo:bignum.c', 'kit:env.c', 'kit:exc_models.c', 'kit:libc_models.c']
CUTS = ['sexp_ratio_[a-z_]*', 'sexp_complex_[a-z_]*', 'sexp_make_ratio', 'sexp_make_complex', 'sexp_double_to_bignum', 'sexp_bignum_to_double',
        'sexp_define_foreign_aux', 'sexp_env_define', 'sexp_intern', 'sexp_make_string_op', 'sexp_c_string']


def prepare(run, tier):
    """regenerate the accessor C from lib/scheme/bytevector.stub with the repo's own tools/chibi-ffi, run by a bootstrap
    interpreter compiled from the current working tree (5 s)"""
    bs = os.path.join(run.work, 'chibi-bootstrap')
    srcs = [os.path.join(REPO, f) for f in ('gc.c', 'sexp.c', 'bignum.c', 'gc_heap.c', 'opcodes.c', 'vm.c', 'eval.c', 'simplify.c', 'main.c')]
    r = subprocess.run(['gcc', '-O1', '-w', '-DSEXP_USE_DL=0', '-DSEXP_USE_INTTYPES=0', '-DSEXP_USE_NTPGETTIME=1', '-I', os.path.join(REPO, 'include'),
                        '-I', os.path.join(HARNESS, 'include')] + srcs + ['-o', bs, '-lm', '-ldl'], capture_output=True, text=True)
    if r.returncode != 0:
        raise RuntimeError('bootstrap build failed: ' + r.stderr[-1500:])
    out = os.path.join(run.work, 'bytevector.c')
    env = dict(os.environ, CHIBI_IGNORE_SYSTEM_PATH='1', CHIBI_MODULE_PATH=os.path.join(REPO, 'lib'))
    r = subprocess.run([bs, os.path.join(REPO, 'tools', 'chibi-ffi'), os.path.join(REPO, 'lib', 'scheme', 'bytevector.stub'), out],
                       capture_output=True, text=True, env=env, cwd=REPO, timeout=120)
    if r.returncode != 0 or not os.path.exists(out):
        raise RuntimeError('chibi-ffi failed: ' + r.stdout[-800:] + r.stderr[-800:])
    run.extra_assumptions.append('bytevector accessors: C generated on this run by tools/chibi-ffi from lib/scheme/bytevector.stub using a bootstrap interpreter built from the current tree')


def bv_queries(tier):
    qs = []
    # 64-bit accessors are not claimed: cbmc and the native build disagree on the 8-byte memcpy through the packed byte
    # layout (the replay reports `encoding_suspect`), so no verdict is reported for them
    combos = [('u16', 2, 0, 1), ('s16', 2, 1, 0), ('u32', 4, 0, 0), ('s32', 4, 1, 1)]
    # both variants (endianness-taking and native) of every width/sign at every tier: 7 s per query, run in parallel
    combos += [(t, sz, sg, 1 - nat) for (t, sz, sg, nat) in combos]
    for t, sz, sg, nat in combos:
        d = {'T': t, 'SZ': sz, 'SIGNEDT': sg, 'BL': 9}
        if nat:
            d['NATIVE'] = 1
        qs.append(Query(name='bytevector-%s%s-ref/set![9 free bytes, free index -3..12, free value%s]' % (t, '-native' if nat else '', '' if nat else ', free endianness'),
                        harness='C19_bvacc.c', units=BV_UNITS, unit_defs=UD, defs=d, unwind=12,
                        unwindset={'memcpy.1': 10, 'memcpy.0': 3}, remove_bodies=EXC, cuts=CUTS, cap=300,
                        backends=['cadical', 'minisat', 'kissat'], functions=['sexp_bytevector_%s%s_ref_stub' % (t, '_native' if nat else ''), 'sexp_bytevector_%s%s_set_x_stub' % (t, '_native' if nat else '')]))
    return qs


JSON_UNITS = ['repo:lib/chibi/json.c', 'kit:kitfull.c', 'kit:env.c', 'kit:exc_models.c', 'kit:libc_models.c']
JSON_RM = ['sexp_json_read_exception', 'sexp_json_write_exception', 'sexp_buffered_read_char', 'sexp_buffered_flush']


def json_queries(tier):
    qs = []
    nin = 3 if tier == 'quick' else 6
    common = dict(harness='C19_json.c', units=JSON_UNITS, unit_defs=dict(UD, KIT_MAX_bytes=16), unwind=20, remove_bodies=EXC + JSON_RM,
                  cuts=['sexp_intern', 'sexp_make_exception', 'json_read', 'json_write'], cap=600, backends=['cadical', 'minisat', 'kissat'],
                  unwindset={'memcpy.1': 20, 'memcpy.0': 4, 'strlen.0': 16})
    qs.append(Query(name='json_read_string[%d arbitrary input bytes: total, in bounds]' % nin, defs={'OP': 1, 'NIN': nin}, functions=['json_read_string', 'decode_useq'], **common))
    qs.append(Query(name='json string round trip[1 scalar value, any]', defs={'OP': 2, 'NCH': 1}, functions=['json_write_string', 'json_read_string', 'decode_useq'], **common))
    qs.append(Query(name='json string round trip[<=2 ASCII characters incl. quote, backslash, controls]', defs={'OP': 2, 'NCH': 2, 'ASCII_ONLY': 1},
                    functions=['json_write_string', 'json_read_string'], **common))
    return qs


def queries(tier):
    qs = []
    cap = 300 if tier == 'quick' else 1800
    for op, nm in ((1, 'quarter: all 8-bit codes'), (2, 'half: all non-NaN 16-bit codes'), (3, 'specials'), (4, 'half: representable values')):
        qs.append(Query(name='minifloat[%s]' % nm, harness='C19_minifloat.c', units=UNITS, unit_defs=UD, defs={'OP': op}, unwind=9,
                        remove_bodies=EXC, cap=cap, backends=['cadical', 'minisat', 'kissat'], flags=['--no-signed-overflow-check'] if False else []))
    # json_queries(tier) (harness/C19_json.c: json.c string reader/writer on hand-built buffer ports) is not part of the
    # claim: none of its queries reached a verdict within 10 minutes in this phase (data-dependent result sizes + the 128-byte
    # stack buffer); the harness is kept for a later phase
    return qs + bv_queries(tier)


def bounds(tier):
    return {'domain': 'exhaustive inside one query: every 8-bit quarter code and every 16-bit half code (symbolic), NaN codes handled separately',
            'unwind': 'binary search of sexp_double_to_quarter: 9'}


ASSUMPTIONS = R_ASSUME + ['CBMC IEEE-754 float model (round-to-nearest-even) trusted for float<->int bit casts and comparisons']
OUTSIDE = ['base64, quoted-printable, URI, CSV, (chibi bytevector), JSON text layer in Scheme: no C kernel (not encodable by this technique)',
           'lib/chibi/json.c reader/writer over ports (needs the port layer: not encoded in this tier); ieee-single/double accessors and the utf16/utf32 transcoders of bytevector.stub',
           'non-canonical half NaN codes (never produced by the encoder) decode to large finite values']
