"""shared constants for check modules"""
R_ASSUME = [
    'R1: real units compiled with -include harness/prelude.h (flat field accessors; same address and type as the originals)',
    'R2: heap objects are exact-size word arrays (bytes/strings char arrays where stated)',
    'R3: sexp_alloc is the environment allocator (fresh zero-filled exact-size block, never fails; --no-malloc-may-fail)',
    'R8: every harness carries a reachability witness (final assert(0) must be violated)',
    'cbmc 6.11.0: --unwinding-assertions (default), pointer/bounds/div-by-zero/overflow/shift checks on, --pointer-overflow-check',
    'LP64, little-endian, default feature set of the CMake build (SEXP_USE_DL=1, SEXP_USE_INTTYPES=0, SEXP_USE_NTPGETTIME=1)',
]
ENV_MODEL = 'harness/env.c: exception constructors (sexp_type_exception, sexp_xtype_exception, sexp_range_exception, sexp_user_exception) are modelled as "fresh exception object carrying the irritant"; sexp_make_flonum/sexp_cons_op as plain allocation'
