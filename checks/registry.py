"""Single source for MANIFEST.json (bin/mkmanifest writes it)."""
CLAIMED = {
 'C04': dict(text='Bounded model checking (CBMC, unwinding assertions on) of the real bignum.c kernels against a 320-bit two\'s-complement oracle: every word of every operand is a free symbolic value (D-full) for add/sub/compare/normalise/fx-add/fx-sub/conversions; generic sexp_add/sub/compare dispatch over fixnum (boundary-lattice constants) x bignum (free words). UNSAT = no input within 1..3 words violates exactness.',
             note='CBMC 6.11 + SAT back ends (MiniSat, CaDiCaL, kissat) trusted; environment allocator and exception-constructor models (harness/env.c); memmove/memcpy/memset loop models; multiplication/division only in stated R7 domains; values > 3 words outside.',
             technique='bounded model checking of real C (CBMC/SAT) vs wide-integer oracle', ref='5 C04'),
 'C09': dict(text='Equivalence checking by CBMC of every helper of the 128-bit emulation (include/chibi/bignum.h with SEXP_USE_CUSTOM_LONG_LONGS=1) against the native __int128 expression of the same-named macro: all 128 bits free for add/sub/and/shift/compare/convert/negate; multiply/divide in constant, lattice and small-width domains.',
             note='Covers the numeric build-variant half of C09; simplify.c passes and constant folding are listed as outside in the evidence. CBMC + SAT back ends trusted.',
             technique='bounded equivalence checking (CBMC/SAT) emulation vs native __int128', ref='5 C09'),
 'C17': dict(text='Bounded model checking of all of lib/srfi/151/bit.c against an infinite-precision two\'s-complement oracle (320/448-bit bit-vectors): and/ior/xor/shift/bit-count/integer-length/bit-set? with operands = fixnum (all value bits free) or bignum of 1..3 fully free words, either sign; shift counts and bit indices from the word-boundary set. Counterexamples are replayed natively (ASan/UBSan) before being reported.',
             note='CBMC + SAT back ends trusted; env allocator/exception models; operands beyond 3 words and other shift counts outside; the Scheme wrappers of bitwise.scm outside.',
             technique='bounded model checking of real C (CBMC/SAT) vs bit-vector oracle', ref='5 C17'),
}
CLAIMED['C15'] = dict(text='Bounded model checking of the real sexp_equalp_bound/sexp_equalp_op (sexp.c) and sexp_hash/hash_one (lib/srfi/69/hash.c): equal? is reflexive, symmetric, transitive and holds exactly when contents agree, and equal? objects have the same raw hash, over operand kinds fixnum/char/flonum (all 64 bits free)/bignum 1-2 free words incl. leading zero words/strings at free offsets into free byte stores/bytevectors/pairs/vectors/symbols; kinds enumerated per query.',
             note='CBMC + SAT trusted; context and type table built by hand from the real _sexp_type_specs; exception constructors modelled; container leaves are constants; nesting depth 1; hash-table cell/delete step and user-supplied hash/equality closures outside (thorough tier extends).',
             technique='bounded model checking of real C (CBMC/SAT), relational properties over symbolic objects', ref='5 C15')
NOT_APPLICABLE = {
 'C07': 'macro hygiene lives in Scheme code (lib/init-7.scm renamer/syntax-rules) executed by the VM on symbolic programs: no C kernel states the property; symbolic execution of the VM over symbolic programs is out of BMC reach (DESIGN 6)',
 'C20': 'lib/chibi/regexp.scm is 100% Scheme; there is no C kernel to encode and no Scheme-to-SMT engine in the image (DESIGN 6)',
}
PENDING_REASON = 'check under construction in this session (design in DESIGN.md section 5); not claimed until its quick command passes on the unchanged tree'
