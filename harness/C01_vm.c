/* C01 (i): inline VM opcodes of sexp_apply as sliced case bodies (gen/vm_slice.py: verbatim text
   of the case, compiled with vm.c's own macros).  One instruction from an arbitrary operand
   state: operands sit on a real stack object above a few sentinel words.
   -DOPC=<opcode id below>, -DV1/-DV2/-DV3 choose the operand kinds (enumerated, R10). */
#include "kit.h"
#include "kitfull.h"
#include "wide.h"

enum { VM_EXIT_NEXT = 1, VM_EXIT_LOOP, VM_EXIT_ERROR, VM_EXIT_END, VM_EXIT_MAKE_CALL, VM_EXIT_APPLY1, VM_EXIT_CHECK_TYPE };
#define DECL(op) int vm_slice_##op(sexp ctx, sexp *self_io, sexp *stack, sexp_sint_t *top_io, sexp_sint_t *fp_io, unsigned char **ip_io, sexp *cp_io, sexp *bc_io, sexp *tmp1_io, sexp_sint_t *i_io);
KIT_C_BEGIN
DECL(VECTOR_REF) DECL(VECTOR_SET) DECL(VECTOR_LENGTH) DECL(BYTES_REF) DECL(BYTES_SET) DECL(BYTES_LENGTH) DECL(STRING_REF)
DECL(STRING_LENGTH) DECL(STRING_CURSOR_NEXT) DECL(STRING_CURSOR_PREV) DECL(STRING_CURSOR_END) DECL(CAR) DECL(CDR) DECL(SET_CAR)
DECL(SET_CDR) DECL(CHAR2INT) DECL(INT2CHAR) DECL(SLOTN_REF) DECL(SLOTN_SET) DECL(MAKE_VECTOR)
DECL(ADD) DECL(SUB) DECL(MUL) DECL(QUOTIENT) DECL(REMAINDER) DECL(LT) DECL(LE) DECL(EQN)
KIT_C_END

/* operand kinds */
#define K_NONE 0
#define K_VECTOR 1      /* vector of VLEN elements */
#define K_BYTES 2       /* bytevector of BLEN free bytes */
#define K_STRING 3      /* BLEN-byte window at a free offset in a free store */
#define K_PAIR 4
#define K_FIXNUM 5      /* free fixnum */
#define K_CURSOR 6      /* free string cursor (also cursors of other strings) */
#define K_CHAR 7        /* free char value incl. surrogates and > 0x10FFFF */
#define K_FALSE 8       /* #f: a non-number, non-pointer immediate */
#define K_IMMUTABLE_VECTOR 9
#define K_FLONUM 10
#define K_OCTET 11      /* fixnum 0..255 */
#define K_RECTYPE 13    /* a record type with 2 slots, registered in the type table */
#define K_RECORD 14     /* an instance of that type */
#define K_OTHERREC 15   /* an instance of a different record type (3 slots) */
#define K_SMALLNAT 16   /* fixnum -2..6 */
#ifndef VLEN
#define VLEN 2
#endif
#ifndef BLEN
#define BLEN 3
#endif
#define STORE (BLEN + 2)
#define BASE 4          /* sentinel words below the operands */
#define DEPTH 12

static sexp elems[VLEN > 0 ? VLEN : 1];
static sexp rectype, rec_slots[3];
static sexp mk_rectype(sexp ctx, int tag, int nslots) {
  sexp t = kit_alloc_tagged(sexp_sizeof(type), SEXP_TYPE);
  sexp_type_tag(t) = tag; sexp_type_field_base(t) = sexp_sizeof_header; sexp_type_field_eq_len_base(t) = nslots; sexp_type_field_len_base(t) = nslots;
  sexp_type_size_base(t) = sexp_sizeof_header + nslots * sizeof(sexp);
  sexp_type_cpl(t) = SEXP_FALSE; sexp_type_slots(t) = SEXP_NULL; sexp_type_getters(t) = SEXP_FALSE; sexp_type_setters(t) = SEXP_FALSE; sexp_type_name(t) = SEXP_FALSE;
  sexp types = sexp_global(kit_the_ctx, SEXP_G_TYPES);
  sexp_vector_data(types)[tag] = t;
  if ((sexp_uint_t)tag + 1 > sexp_vector_length(types)) sexp_vector_length(types) = tag + 1;
  sexp_global(kit_the_ctx, SEXP_G_NUM_TYPES) = sexp_make_fixnum(sexp_vector_length(types));
  return t;
}
static sexp mk(int kind) {
  switch (kind) {
  case K_RECTYPE: if (!rectype) rectype = mk_rectype(kit_the_ctx, SEXP_NUM_CORE_TYPES, 2); return rectype;
  case K_RECORD: {
    if (!rectype) rectype = mk_rectype(kit_the_ctx, SEXP_NUM_CORE_TYPES, 2);
    sexp r = kit_alloc_tagged(sexp_sizeof_header + 2 * sizeof(sexp), SEXP_NUM_CORE_TYPES);
    for (int i = 0; i < 2; i++) { rec_slots[i] = kit_flonum(10.0 + i); sexp_slot_ref(r, i) = rec_slots[i]; }
    return r; }
  case K_OTHERREC: {
    mk_rectype(kit_the_ctx, SEXP_NUM_CORE_TYPES + 1, 3);
    sexp r = kit_alloc_tagged(sexp_sizeof_header + 3 * sizeof(sexp), SEXP_NUM_CORE_TYPES + 1);
    for (int i = 0; i < 3; i++) sexp_slot_ref(r, i) = kit_flonum(20.0 + i);
    return r; }
  case K_SMALLNAT: { sexp_sint_t v = nondet_sword(); __CPROVER_assume(v >= -2 && v <= 6); return sexp_make_fixnum(v); }
  case K_VECTOR: case K_IMMUTABLE_VECTOR: {
    sexp v = kit_vector(VLEN);
    for (int i = 0; i < VLEN; i++) { elems[i] = kit_flonum(1.0 + i); sexp_vector_data(v)[i] = elems[i]; }
    if (kind == K_IMMUTABLE_VECTOR) sexp_immutablep(v) = 1;
    return v; }
  case K_BYTES: return kit_any_bytes(BLEN);
  case K_STRING: {
    sexp store = kit_any_bytes(STORE);
    sexp_uint_t off = nondet_uword(); __CPROVER_assume(off <= STORE - BLEN);
    return kit_string_over(store, off, BLEN); }
  case K_PAIR: return kit_pair(kit_flonum(1.0), kit_flonum(2.0));
  case K_FIXNUM: return kit_any_fixnum();
  case K_OCTET: { sexp_sint_t v = nondet_sword(); __CPROVER_assume(v >= 0 && v < 256); return sexp_make_fixnum(v); }
  case K_CURSOR: { sexp_sint_t v = nondet_sword(); __CPROVER_assume(v >= -(1L << 40) && v <= (1L << 40)); return sexp_make_string_cursor(v); }
  case K_CHAR: { sexp_sint_t v = nondet_sword(); __CPROVER_assume(v >= 0 && v <= 0x1FFFFF); return sexp_make_character(v); }
  case K_FALSE: return SEXP_FALSE;
#ifdef FIXC
  case 12: return sexp_make_fixnum(FIXC);
#endif
  case K_FLONUM: return kit_any_flonum();
  }
  return SEXP_VOID;
}

#if OPC >= 20
static int arith_calls, arith_op; static sexp arith_a, arith_b, arith_token;
static sexp arith_model(int op, sexp a, sexp b) {
  arith_calls++; arith_op = op; arith_a = a; arith_b = b;
  if (!arith_token) arith_token = kit_flonum(0.5);
  return arith_token;
}
KIT_C_BEGIN
sexp sexp_add(sexp ctx, sexp a, sexp b) { return arith_model('+', a, b); }
sexp sexp_sub(sexp ctx, sexp a, sexp b) { return arith_model('-', a, b); }
sexp sexp_mul(sexp ctx, sexp a, sexp b) { return arith_model('*', a, b); }
sexp sexp_quotient(sexp ctx, sexp a, sexp b) { return arith_model('/', a, b); }
sexp sexp_remainder(sexp ctx, sexp a, sexp b) { return arith_model('%', a, b); }
sexp sexp_compare(sexp ctx, sexp a, sexp b) { arith_model('<', a, b); return SEXP_ZERO; }
KIT_C_END
#endif
static sexp vm_cp = SEXP_FALSE, vm_bc = SEXP_FALSE;
#define RUN(op) vm_slice_##op(ctx, &self, stack, &top, &fp, &ip, &vm_cp, &vm_bc, NULL, NULL)
#define ARG1 stack[top0-1]
#define ARG2 stack[top0-2]
#define ARG3 stack[top0-3]

void harness(void) {
  sexp ctx = kit_ctx_full();
  sexp stk = kit_alloc_tagged(sexp_sizeof(stack) + DEPTH * sizeof(sexp), SEXP_STACK);
  sexp_stack_length(stk) = DEPTH;
  sexp_context_stack(ctx) = stk;
  sexp *stack = sexp_stack_data(stk);
  sexp self = kit_alloc_tagged(sexp_sizeof(procedure), SEXP_PROCEDURE);
  unsigned char code[16]; unsigned char *ip = code + 1;
  for (int i = 0; i < BASE; i++) stack[i] = sexp_make_fixnum(100 + i);
  sexp_sint_t top = BASE, fp = 0;
  /* operands: _ARG1 is the last pushed */
#if V3 != K_NONE
  sexp a3 = mk(V3); stack[top++] = a3;
#endif
#if V2 != K_NONE
  sexp a2 = mk(V2); stack[top++] = a2;
#endif
  sexp a1 = mk(V1); stack[top++] = a1;
  sexp_sint_t top0 = top;
  struct sexp_gc_var_t *saves0 = sexp_context_saves(ctx);
  int ex = 0;
  (void)ex;

#if OPC == 1      /* VECTOR_REF */
  ex = RUN(VECTOR_REF);
#if V1 == K_VECTOR && V2 == K_FIXNUM
  sexp_sint_t i = sexp_unbox_fixnum(a2);
  if (i >= 0 && i < VLEN) { KIT_ASSERT(ex == VM_EXIT_NEXT && top == top0 - 1 && stack[top-1] == elems[i], "vector-ref returns element i"); }
  else KIT_ASSERT(ex == VM_EXIT_ERROR, "vector-ref out of range is an error");
#else
  KIT_ASSERT(ex == VM_EXIT_ERROR, "vector-ref on ill-typed operands is an error");
#endif
#elif OPC == 2    /* VECTOR_SET: ARG1 vector, ARG2 index, ARG3 value */
  ex = RUN(VECTOR_SET);
#if V1 == K_VECTOR && V2 == K_FIXNUM
  sexp_sint_t i = sexp_unbox_fixnum(a2);
  if (i >= 0 && i < VLEN) {
    KIT_ASSERT(ex == VM_EXIT_NEXT && top == top0 - 3, "vector-set! pops three operands");
    for (int k = 0; k < VLEN; k++) KIT_ASSERT(sexp_vector_data(a1)[k] == (k == i ? a3 : elems[k]), "vector-set! writes exactly element i");
  } else KIT_ASSERT(ex == VM_EXIT_ERROR, "vector-set! out of range is an error");
#else
  KIT_ASSERT(ex == VM_EXIT_ERROR, "vector-set! on ill-typed / immutable operands is an error");
  KIT_ASSERT(V1 != K_IMMUTABLE_VECTOR || (sexp_vector_data(a1)[0] == elems[0] && sexp_vector_data(a1)[VLEN-1] == elems[VLEN-1]), "immutable vector unchanged");
#endif
#elif OPC == 3    /* VECTOR_LENGTH */
  ex = RUN(VECTOR_LENGTH);
  if (V1 == K_VECTOR) KIT_ASSERT(ex == VM_EXIT_NEXT && top == top0 && stack[top-1] == sexp_make_fixnum(VLEN), "vector-length");
  else KIT_ASSERT(ex == VM_EXIT_ERROR, "vector-length of a non-vector is an error");
#elif OPC == 4    /* BYTES_REF */
  ex = RUN(BYTES_REF);
#if V1 == K_BYTES && V2 == K_FIXNUM
  sexp_sint_t i = sexp_unbox_fixnum(a2);
  if (i >= 0 && i < BLEN) { KIT_ASSERT(ex == VM_EXIT_NEXT && top == top0 - 1 && stack[top-1] == sexp_make_fixnum((unsigned char)sexp_bytes_data(a1)[i]), "bytevector-u8-ref returns byte i"); }
  else KIT_ASSERT(ex == VM_EXIT_ERROR, "bytevector-u8-ref out of range is an error");
#else
  KIT_ASSERT(ex == VM_EXIT_ERROR, "bytevector-u8-ref on ill-typed operands is an error");
#endif
#elif OPC == 5    /* BYTES_SET: ARG1 bytes, ARG2 index, ARG3 octet */
  unsigned char before[BLEN];
  for (int k = 0; k < BLEN; k++) before[k] = (V1 == K_BYTES) ? sexp_bytes_data(a1)[k] : 0;
  ex = RUN(BYTES_SET);
#if V1 == K_BYTES && V2 == K_FIXNUM && (V3 == K_OCTET || V3 == K_FIXNUM)
  sexp_sint_t i = sexp_unbox_fixnum(a2);
  if (i >= 0 && i < BLEN && sexp_unbox_fixnum(a3) >= 0 && sexp_unbox_fixnum(a3) < 256) {
    KIT_ASSERT(ex == VM_EXIT_NEXT && top == top0 - 3, "bytevector-u8-set! pops three operands");
    for (int k = 0; k < BLEN; k++) KIT_ASSERT((unsigned char)sexp_bytes_data(a1)[k] == (k == i ? (unsigned char)sexp_unbox_fixnum(a3) : before[k]), "bytevector-u8-set! writes exactly byte i");
    KIT_ASSERT(sexp_bytes_length(a1) == BLEN, "length field untouched");
  } else {
    KIT_ASSERT(ex == VM_EXIT_ERROR, "bytevector-u8-set! out of range / non-octet is an error");
    for (int k = 0; k < BLEN; k++) KIT_ASSERT((unsigned char)sexp_bytes_data(a1)[k] == before[k], "a rejected bytevector-u8-set! writes nothing");
  }
#else
  KIT_ASSERT(ex == VM_EXIT_ERROR, "bytevector-u8-set! on ill-typed operands is an error");
#endif
#elif OPC == 6    /* BYTES_LENGTH */
  ex = RUN(BYTES_LENGTH);
  if (V1 == K_BYTES) KIT_ASSERT(ex == VM_EXIT_NEXT && stack[top-1] == sexp_make_fixnum(BLEN), "bytevector-length");
  else KIT_ASSERT(ex == VM_EXIT_ERROR, "bytevector-length of a non-bytevector is an error");
#elif OPC == 7    /* STRING_REF (cursor ref): memory safety + result is a char or an exception */
  ex = RUN(STRING_REF);
  KIT_ASSERT(ex == VM_EXIT_NEXT || ex == VM_EXIT_ERROR, "string-cursor-ref returns or raises");
  if (ex == VM_EXIT_NEXT) KIT_ASSERT(sexp_charp(stack[top-1]) && V1 == K_STRING && V2 == K_CURSOR
                                     && sexp_unbox_string_cursor(a2) >= 0 && sexp_unbox_string_cursor(a2) < BLEN, "a character comes only from an in-range cursor");
#elif OPC == 8    /* STRING_CURSOR_NEXT */
  ex = RUN(STRING_CURSOR_NEXT);
  KIT_ASSERT(ex == VM_EXIT_NEXT || ex == VM_EXIT_ERROR, "string-cursor-next returns or raises");
#if V1 == K_STRING && V2 == K_CURSOR
  sexp_sint_t c = sexp_unbox_string_cursor(a2);
  if (c < 0 || c > BLEN) KIT_ASSERT(ex == VM_EXIT_ERROR, "a cursor outside the string is rejected");
  else KIT_ASSERT(ex == VM_EXIT_NEXT && sexp_string_cursorp(stack[top-1]) && sexp_unbox_string_cursor(stack[top-1]) > c
                  && sexp_unbox_string_cursor(stack[top-1]) <= c + 4, "next advances by 1..4 bytes");
#endif
#elif OPC == 9    /* STRING_CURSOR_PREV */
  ex = RUN(STRING_CURSOR_PREV);
  KIT_ASSERT(ex == VM_EXIT_NEXT || ex == VM_EXIT_ERROR, "string-cursor-prev returns or raises");
#if V1 == K_STRING && V2 == K_CURSOR
  sexp_sint_t c = sexp_unbox_string_cursor(a2);
  if (c < 0 || c > BLEN) KIT_ASSERT(ex == VM_EXIT_ERROR, "a cursor outside the string is rejected");
#endif
#elif OPC == 10   /* CAR / CDR / SET_CAR / SET_CDR */
  ex = RUN(CAR);
  if (V1 == K_PAIR) KIT_ASSERT(ex == VM_EXIT_NEXT && stack[top-1] == sexp_car(a1), "car"); else KIT_ASSERT(ex == VM_EXIT_ERROR, "car of a non-pair is an error");
#elif OPC == 11
  ex = RUN(CDR);
  if (V1 == K_PAIR) KIT_ASSERT(ex == VM_EXIT_NEXT && stack[top-1] == sexp_cdr(a1), "cdr"); else KIT_ASSERT(ex == VM_EXIT_ERROR, "cdr of a non-pair is an error");
#elif OPC == 12
  sexp oldcdr = V1 == K_PAIR ? sexp_cdr(a1) : SEXP_VOID;
  ex = RUN(SET_CAR);
  if (V1 == K_PAIR) KIT_ASSERT(ex == VM_EXIT_NEXT && top == top0 - 2 && sexp_car(a1) == a2 && sexp_cdr(a1) == oldcdr, "set-car!"); else KIT_ASSERT(ex == VM_EXIT_ERROR, "set-car! of a non-pair is an error");
#elif OPC == 13
  sexp oldcar = V1 == K_PAIR ? sexp_car(a1) : SEXP_VOID;
  ex = RUN(SET_CDR);
  if (V1 == K_PAIR) KIT_ASSERT(ex == VM_EXIT_NEXT && top == top0 - 2 && sexp_cdr(a1) == a2 && sexp_car(a1) == oldcar, "set-cdr!"); else KIT_ASSERT(ex == VM_EXIT_ERROR, "set-cdr! of a non-pair is an error");
#elif OPC == 14   /* CHAR2INT */
  ex = RUN(CHAR2INT);
  if (V1 == K_CHAR) KIT_ASSERT(ex == VM_EXIT_NEXT && stack[top-1] == sexp_make_fixnum(sexp_unbox_character(a1)), "char->integer"); else KIT_ASSERT(ex == VM_EXIT_ERROR, "char->integer of a non-char is an error");
#elif OPC == 15   /* INT2CHAR */
  ex = RUN(INT2CHAR);
  if (V1 == K_FIXNUM) {
    KIT_ASSERT(ex == VM_EXIT_NEXT && sexp_charp(stack[top-1]), "integer->char yields a character object");
    if (sexp_unbox_fixnum(a1) >= 0 && sexp_unbox_fixnum(a1) <= 0x1FFFFF) KIT_ASSERT(sexp_unbox_character(stack[top-1]) == sexp_unbox_fixnum(a1), "integer->char keeps the code point");
  }
  else KIT_ASSERT(ex == VM_EXIT_ERROR, "integer->char of a non-integer is an error");
#elif OPC == 16   /* SLOTN_REF: ARG1 record type, ARG2 record, ARG3 slot index */
  ex = RUN(SLOTN_REF);
#if V1 == K_RECTYPE && V2 == K_RECORD && V3 == K_FIXNUM
  sexp_sint_t i = sexp_unbox_fixnum(a3);
  if (i >= 0 && i < 2) KIT_ASSERT(ex == VM_EXIT_NEXT && top == top0 - 2 && stack[top-1] == rec_slots[i], "record field reference returns slot i");
  else KIT_ASSERT(ex == VM_EXIT_ERROR, "a field index outside the record is an error");
#else
  KIT_ASSERT(ex == VM_EXIT_ERROR, "record field reference with a wrong type / record of another type is an error");
#endif
#elif OPC == 17   /* SLOTN_SET: ARG1 type, ARG2 record, ARG3 index, ARG4 value */
  sexp val4 = kit_flonum(99.0);
  /* four operands: re-push in the right order (value below the three others) */
  top = BASE; stack[top++] = val4; stack[top++] = a3; stack[top++] = a2; stack[top++] = a1; top0 = top;
  ex = RUN(SLOTN_SET);
#if V1 == K_RECTYPE && V2 == K_RECORD && V3 == K_FIXNUM
  sexp_sint_t i = sexp_unbox_fixnum(a3);
  if (i >= 0 && i < 2) {
    KIT_ASSERT(ex == VM_EXIT_NEXT && top == top0 - 4, "record field assignment pops its four operands");
    for (int k = 0; k < 2; k++) KIT_ASSERT(sexp_slot_ref(a2, k) == (k == i ? val4 : rec_slots[k]), "exactly field i is assigned");
  } else {
    KIT_ASSERT(ex == VM_EXIT_ERROR, "a field index outside the record is an error");
    for (int k = 0; k < 2; k++) KIT_ASSERT(sexp_slot_ref(a2, k) == rec_slots[k], "a rejected assignment writes nothing");
  }
#else
  KIT_ASSERT(ex == VM_EXIT_ERROR, "record field assignment with a wrong type / record of another type is an error");
#endif
#elif OPC == 18   /* MAKE_VECTOR: ARG1 length, ARG2 fill */
  ex = RUN(MAKE_VECTOR);
#if V1 == K_SMALLNAT
  sexp_sint_t len = sexp_unbox_fixnum(a1);
  if (len < 0) KIT_ASSERT(ex == VM_EXIT_ERROR, "a negative length is an error");
  else {
    KIT_ASSERT(ex == VM_EXIT_NEXT && top == top0 - 1 && sexp_vectorp(stack[top-1]) && (sexp_sint_t)sexp_vector_length(stack[top-1]) == len, "make-vector returns a vector of the requested length");
    for (int k = 0; k < 6; k++) if (k < len) KIT_ASSERT(sexp_vector_data(stack[top-1])[k] == a2, "every element is the fill value");
  }
#else
  KIT_ASSERT(ex == VM_EXIT_ERROR, "a non-integer length is an error");
#endif
#elif OPC >= 20 && OPC <= 27   /* fixnum fast paths: ARG1 op ARG2, both free fixnums */
  /* the generic sexp_add/sub/mul/quotient/remainder/compare of bignum.c are replaced by recording
     models (their exactness is C04's subject): checked here are the fixnum fast path itself and
     the hand-over protocol on overflow (first operand converted to a bignum of the same value) */
  wide x = (wide)sexp_unbox_fixnum(a1), y = (wide)sexp_unbox_fixnum(a2);
  int opch = 0;
#if OPC == 20
  ex = RUN(ADD); wide expect = x + y; opch = '+';
#elif OPC == 21
  ex = RUN(SUB); wide expect = x - y; opch = '-';
#elif OPC == 22
  ex = RUN(MUL); wide expect = x * y; opch = '*';
#elif OPC == 23
  ex = RUN(QUOTIENT); opch = '/';
  wide expect = 0;
  if (y != (wide)0) { sexp_sint_t xs = sexp_unbox_fixnum(a1), ys = sexp_unbox_fixnum(a2); expect = (ys == -1) ? -(wide)xs : (wide)(xs / ys); }
#elif OPC == 24
  ex = RUN(REMAINDER); opch = '%';
  wide expect = 0;
  if (y != (wide)0) { sexp_sint_t xs = sexp_unbox_fixnum(a1), ys = sexp_unbox_fixnum(a2); expect = (ys == -1) ? (wide)0 : (wide)(xs % ys); }
#endif
#if OPC <= 24
  if ((OPC == 23 || OPC == 24) && y == (wide)0) KIT_ASSERT(ex == VM_EXIT_ERROR, "division by zero is an error");
  else {
    KIT_ASSERT(ex == VM_EXIT_NEXT && top == top0 - 1, "binary arithmetic pops one operand");
    if (expect >= (wide)SEXP_MIN_FIXNUM && expect <= (wide)SEXP_MAX_FIXNUM) {
      KIT_ASSERT(arith_calls == 0 && sexp_fixnump(stack[top-1]) && (wide)sexp_unbox_fixnum(stack[top-1]) == expect, "in-range fixnum arithmetic is exact and stays a fixnum");
    } else {
      KIT_ASSERT(arith_calls == 1 && arith_op == opch && stack[top-1] == arith_token, "overflow is handed to the generic bignum routine exactly once");
      KIT_ASSERT(sexp_bignump(arith_a) && wide_of(arith_a) == x && arith_b == a2, "the hand-over passes the same two values (first one as a bignum)");
    }
  }
#elif OPC == 25
  ex = RUN(LT); KIT_ASSERT(ex == VM_EXIT_NEXT && arith_calls == 0 && stack[top-1] == sexp_make_boolean(x < y), "< on fixnums");
#elif OPC == 26
  ex = RUN(LE); KIT_ASSERT(ex == VM_EXIT_NEXT && arith_calls == 0 && stack[top-1] == sexp_make_boolean(x <= y), "<= on fixnums");
#elif OPC == 27
  ex = RUN(EQN); KIT_ASSERT(ex == VM_EXIT_NEXT && arith_calls == 0 && stack[top-1] == sexp_make_boolean(x == y), "= on fixnums");
#endif
#endif
  /* common post-conditions (error containment at the instruction level) */
  KIT_ASSERT(ex == VM_EXIT_NEXT || ex == VM_EXIT_ERROR, "an instruction either completes or goes to the error handler");
  if (ex == VM_EXIT_ERROR) {
    KIT_ASSERT(top >= 1 && top <= top0 + 1 && sexp_exceptionp(stack[top-1]), "the error path leaves an exception object on top of the stack");
  }
  KIT_ASSERT(top >= BASE && top <= DEPTH, "stack pointer stays inside the frame");
  for (int i = 0; i < BASE; i++) KIT_ASSERT(stack[i] == sexp_make_fixnum(100 + i), "words below the operands are untouched");
  KIT_ASSERT(sexp_context_saves(ctx) == saves0, "the preserved-variable chain is restored");
  KIT_WITNESS();
}
