/* C02(B): rooting discipline of real allocating C functions under "a collection may happen at every
   allocation" (env.c, KIT_GC_MODEL).  Arguments are rooted by the harness as the caller contract says;
   only the function's own temporaries are at stake.  A use of a collected object is a CBMC
   "deallocated dynamic object" failure; the result must be intact for every collection schedule. */
#include "kit.h"
#include "kitfull.h"
KIT_C_BEGIN
sexp sexp_bit_and (sexp ctx, sexp self, sexp_sint_t n, sexp x, sexp y);
sexp sexp_sort_x (sexp ctx, sexp self, sexp_sint_t n, sexp seq, sexp less, sexp key);
sexp sexp_hash_table_cell (sexp ctx, sexp self, sexp_sint_t n, sexp ht, sexp obj, sexp createp);
sexp sexp_bignum_add_fixnum (sexp ctx, sexp a, sexp b);
sexp sexp_arithmetic_shift (sexp ctx, sexp self, sexp_sint_t n, sexp i, sexp count);
sexp sexp_bit_xor (sexp ctx, sexp self, sexp_sint_t n, sexp x, sexp y);
sexp sexp_string_utf8_index_set (sexp ctx, sexp self, sexp_sint_t n, sexp str, sexp i, sexp ch);
KIT_C_END

void harness(void) {
  sexp ctx = kit_ctx_full();
  sexp e0 = kit_flonum(0.5), e1 = kit_flonum(1.5), e2 = kit_flonum(2.5);
#if FN == 1       /* append2: (e0 e1) ++ (e2) */
  sexp a = kit_pair(e0, kit_pair(e1, SEXP_NULL)), b = kit_pair(e2, SEXP_NULL);
  kit_gc_root(a); kit_gc_root(b);
  sexp r = sexp_append2_op(ctx, SEXP_FALSE, 2, a, b);
  KIT_ASSERT(sexp_pairp(r) && sexp_car(r) == e0 && sexp_pairp(sexp_cdr(r)) && sexp_cadr(r) == e1 && sexp_cddr(r) == b, "append result is (e0 e1 . b) for every collection schedule");
#elif FN == 2     /* list->vector */
  sexp a = kit_pair(e0, kit_pair(e1, SEXP_NULL));
  kit_gc_root(a);
  sexp r = sexp_list_to_vector_op(ctx, SEXP_FALSE, 1, a);
  KIT_ASSERT(sexp_vectorp(r) && sexp_vector_length(r) == 2 && sexp_vector_data(r)[0] == e0 && sexp_vector_data(r)[1] == e1, "list->vector result intact");
#elif FN == 3     /* bitwise and on two 1-word bignums (allocates the result, normalises) */
  sexp x = kit_any_bignum(1, 1), y = kit_any_bignum(1, 1);
  kit_gc_root(x); kit_gc_root(y);
  sexp r = sexp_bit_and(ctx, SEXP_FALSE, 2, x, y);
  KIT_ASSERT(sexp_fixnump(r) || (sexp_bignump(r) && sexp_bignum_length(r) >= 1), "bit-and result is a live integer");
  if (sexp_bignump(r)) KIT_ASSERT(sexp_bignum_data(r)[0] == sexp_bignum_data(r)[0], "result words readable");
#elif FN == 4     /* generic add: fixnum + fixnum overflowing into a bignum (temporary bignum held across sexp_add) */
  sexp r = sexp_add(ctx, sexp_make_fixnum(SEXP_MAX_FIXNUM), sexp_make_fixnum(5));
  KIT_ASSERT(sexp_bignump(r) && sexp_bignum_data(r)[0] == (sexp_uint_t)SEXP_MAX_FIXNUM + 5, "overflowing add yields the exact bignum");
#elif FN == 5     /* bignum + fixnum */
  sexp x = kit_any_bignum(1, 1);
  kit_gc_root(x);
  sexp r = sexp_bignum_add_fixnum(ctx, x, sexp_make_fixnum(7));
  KIT_ASSERT(sexp_bignump(r) && sexp_bignum_length(r) >= 1 && sexp_bignum_data(r)[0] == sexp_bignum_data(r)[0], "bignum + fixnum result is live");
#elif FN == 6     /* sort of a 3-element list with the default comparator: list->vector, scratch vector */
  sexp a = kit_pair(e2, kit_pair(e0, kit_pair(e1, SEXP_NULL)));
  kit_gc_root(a);
  sexp r = sexp_sort_x(ctx, SEXP_FALSE, 3, a, SEXP_FALSE, SEXP_FALSE);
  KIT_ASSERT(r == a && sexp_car(a) == e0 && sexp_cadr(a) == e1 && sexp_car(sexp_cddr(a)) == e2, "sorted list intact for every collection schedule");
#elif FN == 7     /* hash-table-cell with create: 1-bucket table with one entry, key = fixnum (eq) */
  sexp ht = kit_alloc_tagged(sexp_sizeof_header + 4 * sizeof(sexp), SEXP_NUM_CORE_TYPES + 3);
  sexp buckets = kit_vector(2);
  sexp_vector_data(buckets)[0] = SEXP_NULL; sexp_vector_data(buckets)[1] = SEXP_NULL;
  sexp_slot_ref(ht, 0) = buckets; sexp_slot_ref(ht, 1) = SEXP_ZERO; sexp_slot_ref(ht, 2) = SEXP_ONE; sexp_slot_ref(ht, 3) = SEXP_ONE;
  kit_gc_root_record(ht, 4); kit_gc_root(buckets);
  sexp key = sexp_make_fixnum(5);
  sexp r = sexp_hash_table_cell(ctx, SEXP_FALSE, 3, ht, key, e0);
  KIT_ASSERT(sexp_pairp(r) && sexp_car(r) == key && sexp_cdr(r) == e0, "created cell intact");
  sexp bk = sexp_slot_ref(ht, 0);
  KIT_ASSERT(sexp_vectorp(bk) && sexp_slot_ref(ht, 1) == SEXP_ONE, "table updated");
#elif FN == 8     /* string concatenation */
  sexp s1 = kit_string_over(kit_any_bytes(2), 0, 2), s2 = kit_string_over(kit_any_bytes(1), 0, 1);
  sexp ls = kit_pair(s1, kit_pair(s2, SEXP_NULL));
  kit_gc_root(ls);
  sexp r = sexp_string_concatenate_op(ctx, SEXP_FALSE, 2, ls, SEXP_FALSE);
  KIT_ASSERT(sexp_stringp(r) && sexp_string_size(r) == 3 && sexp_string_data(r)[0] == sexp_string_data(s1)[0] && sexp_string_data(r)[2] == sexp_string_data(s2)[0], "concatenation intact");
#elif FN == 9     /* left shift of a fixnum that overflows into a bignum (temporary bignum across the recursive call) */
  sexp r = sexp_arithmetic_shift(ctx, SEXP_FALSE, 2, sexp_make_fixnum(5), sexp_make_fixnum(70));
  KIT_ASSERT(sexp_bignump(r) && sexp_bignum_length(r) >= 2 && sexp_bignum_data(r)[1] == (5UL << 6), "5 << 70 is the exact bignum for every collection schedule");
#elif FN == 10    /* xor of a fixnum and a bignum */
  sexp x = kit_any_bignum(2, 1);
  kit_gc_root(x);
  sexp r = sexp_bit_xor(ctx, SEXP_FALSE, 2, sexp_make_fixnum(-3), x);
  KIT_ASSERT(sexp_fixnump(r) || (sexp_bignump(r) && sexp_bignum_data(r)[0] == sexp_bignum_data(r)[0]), "xor result is a live integer");
#elif FN == 11    /* substring of a 3-byte ASCII string */
  sexp b = kit_bytes(3); sexp_bytes_data(b)[0] = 'a'; sexp_bytes_data(b)[1] = 'b'; sexp_bytes_data(b)[2] = 'c';
  sexp s1 = kit_string_over(b, 0, 3);
  kit_gc_root(s1);
  sexp r = sexp_substring_op(ctx, SEXP_FALSE, 3, s1, sexp_make_string_cursor(1), sexp_make_string_cursor(3));
  KIT_ASSERT(sexp_stringp(r) && sexp_string_size(r) == 2 && sexp_string_data(r)[0] == 'b' && sexp_string_data(r)[1] == 'c', "substring intact");
#elif FN == 12    /* width-changing string-set!: the string moves to a freshly allocated store */
  sexp b = kit_bytes(2); sexp_bytes_data(b)[0] = 'a'; sexp_bytes_data(b)[1] = 'b';
  sexp s1 = kit_string_over(b, 0, 2);
  kit_gc_root(s1);
  sexp r = sexp_string_utf8_index_set(ctx, SEXP_FALSE, 3, s1, sexp_make_fixnum(0), sexp_make_character(0x3BB));
  KIT_ASSERT(r == SEXP_VOID && sexp_string_size(s1) == 3 && (unsigned char)sexp_string_data(s1)[0] == 0xCE && (unsigned char)sexp_string_data(s1)[1] == 0xBB && sexp_string_data(s1)[2] == 'b', "string-set! result intact");
#elif FN == 13    /* make-ephemeron */
  sexp r = sexp_make_ephemeron_op(ctx, SEXP_FALSE, 2, e0, e1);
  KIT_ASSERT(sexp_ephemeronp(r) && sexp_ephemeron_key(r) == e0 && sexp_ephemeron_value(r) == e1, "ephemeron intact");
#elif FN == 14    /* hash-table-cell create that triggers a regrow: 1 bucket, size large enough for the resize test */
  sexp ht = kit_alloc_tagged(sexp_sizeof_header + 4 * sizeof(sexp), SEXP_NUM_CORE_TYPES + 3);
  sexp buckets = kit_vector(1);
  sexp oldcell = kit_pair(sexp_make_fixnum(1), e1);
  sexp_vector_data(buckets)[0] = kit_pair(oldcell, SEXP_NULL);
  sexp_slot_ref(ht, 0) = buckets; sexp_slot_ref(ht, 1) = SEXP_ONE; sexp_slot_ref(ht, 2) = SEXP_ONE; sexp_slot_ref(ht, 3) = SEXP_ONE;
  kit_gc_root_record(ht, 4);
  sexp key = sexp_make_fixnum(6);
  sexp r = sexp_hash_table_cell(ctx, SEXP_FALSE, 3, ht, key, e0);
  KIT_ASSERT(sexp_pairp(r) && sexp_car(r) == key && sexp_cdr(r) == e0, "created cell intact after the regrow");
  sexp nb = sexp_slot_ref(ht, 0);
  KIT_ASSERT(sexp_vectorp(nb) && sexp_vector_length(nb) == 2 && sexp_slot_ref(ht, 1) == SEXP_TWO, "table regrown and updated");
  int found_old = 0;
  for (int k = 0; k < 2; k++) { sexp l = sexp_vector_data(nb)[k]; for (int d = 0; d < 3; d++) { if (!sexp_pairp(l)) break; if (sexp_car(l) == oldcell) found_old = 1; l = sexp_cdr(l); } }
  KIT_ASSERT(found_old, "the old entry survives the regrow");
#endif
  KIT_WITNESS();
}
