/* C04: exact arithmetic kernels of bignum.c against a wide-integer oracle (D-full: every word
   of every operand free).  -DOP selects the kernel, -DAK/-DBK the operand word counts
   (exactly that many words, leading zero words allowed), -DALIAS makes dst alias a. */
#include "kit.h"
#include "wide.h"

KIT_C_BEGIN
sexp sexp_bignum_add_fixnum (sexp ctx, sexp a, sexp b);
sexp sexp_bignum_add_digits (sexp ctx, sexp dst, sexp a, sexp b);
sexp sexp_bignum_sub_digits (sexp ctx, sexp dst, sexp a, sexp b);
sexp sexp_bignum_fxmul (sexp ctx, sexp d, sexp a, sexp_uint_t b, int offset);
sexp_uint_t sexp_bignum_fxdiv (sexp ctx, sexp a, sexp_uint_t b, int offset);
sexp sexp_bignum_fxrem (sexp ctx, sexp a, sexp_sint_t b);
sexp sexp_bignum_mul (sexp ctx, sexp dst, sexp a, sexp b);
sexp sexp_bignum_quot_rem (sexp ctx, sexp *rem, sexp a, sexp b);
KIT_C_END

#define OP_ADD 1        /* sexp_bignum_add(ctx, dst, a, b)        */
#define OP_SUB 2        /* sexp_bignum_sub                          */
#define OP_CMP 3        /* sexp_bignum_compare / compare_abs        */
#define OP_NORM 4       /* sexp_bignum_normalize, hi, zerop         */
#define OP_FXADD 5      /* sexp_bignum_fxadd(a, w) in place         */
#define OP_FXSUB 6      /* sexp_bignum_fxsub(a, w) in place         */
#define OP_F2B 7        /* sexp_fixnum_to_bignum                    */
#define OP_LSINT 8      /* sexp_make_integer_from_lsint (|x| < 2^64 domain, see DESIGN C04 note) */
#define OP_LUINT 9      /* sexp_make_unsigned_integer_from_luint    */
#define OP_ADDFIX 10    /* sexp_bignum_add_fixnum                   */
#define OP_GADD 11      /* generic sexp_add on {fixnum,bignum}^2    */
#define OP_GSUB 12      /* generic sexp_sub                         */
#define OP_GCMP 13      /* generic sexp_compare                     */
#define OP_COPY 14      /* sexp_copy_bignum                         */

#define OP_ADDD 15      /* sexp_bignum_add_digits on magnitudes whose top word is non-zero (lengths concrete) */
#define OP_SUBD 16      /* sexp_bignum_sub_digits likewise */

/* products and quotients (R7): one operand is a constant taken from the real call sites / the
   boundary lattice (-DBW0/-DBW1/-DBW2 words, -DBSIGN; or fixnum -DBV), the other is free */
#define OP_GMUL 17      /* generic sexp_mul                         */
#define OP_GQUOREM 18   /* generic sexp_quotient + sexp_remainder, checked jointly */
#define OP_FXMUL 20     /* sexp_bignum_fxmul(ctx, dst, a, W, 0)     */
#define OP_FXDIV 21     /* sexp_bignum_fxdiv(ctx, a, W, 0) in place */
#define OP_FXREM 22     /* sexp_bignum_fxrem(ctx, a, W)             */
#define OP_MUL 23       /* sexp_bignum_mul(ctx, NULL, a, b)         */
#define OP_QUOTREM 24   /* sexp_bignum_quot_rem(ctx, &rem, a, b)    */

#ifndef AK
#define AK 1
#endif
#ifndef BK
#define BK 1
#endif

static sexp big(int k) {               /* free bignum, sign ±1, any words */
  sexp b = kit_any_bignum(k, 0);
#ifdef ATOP
  /* the top word is a (non-zero) boundary constant, so that the significant length is known to
     symex and the recursion of sexp_bignum_mul is explored along the real path only */
  if (k == AK) sexp_bignum_data(b)[k-1] = (sexp_uint_t)(ATOP);
#endif
#ifdef AMID
  if (k == AK && k >= 3) sexp_bignum_data(b)[k-2] = (sexp_uint_t)(AMID);
#endif
  return b;
}
static sexp number(int k, sexp_sint_t cval) {   /* exact integer as Scheme code sees it */
  if (k == 0) return cval == 0x7fffffff ? kit_any_fixnum() : sexp_make_fixnum(cval);
  sexp b = kit_any_bignum(k, 0);
  __CPROVER_assume(wide_canonical(b));
  return b;
}
#ifndef AV
#define AV 0x7fffffff
#endif
#ifndef BV
#define BV 0x7fffffff
#endif

#ifdef BW0
#ifndef BSIGN
#define BSIGN 1
#endif
#ifndef BW1
#define BW1 0
#endif
#ifndef BW2
#define BW2 0
#endif
static sexp const_big(void) {           /* the constant operand, BK words */
  static const sexp_uint_t w[3] = {BW0, BW1, BW2};
  sexp b = kit_bignum(BK, BSIGN);
  for (int i = 0; i < BK; i++) sexp_bignum_data(b)[i] = w[i];
  return b;
}
#endif
static wide wabs(wide v) { return v < (wide)0 ? -v : v; }
static int sgn(wide v) { return v < (wide)0 ? -1 : v > (wide)0 ? 1 : 0; }

#ifdef MUL_MODEL
/* Induction hypothesis for the recursive multiplication: the unit under test is a copy of
   bignum.c whose *definition* of sexp_bignum_mul is renamed sexp_bignum_mul_body (checks/C04.py:
   prepare); every call site in it binds to this specification. */
#ifndef MLEN
#define MLEN (AK + BK + 1)
#endif
KIT_C_BEGIN
sexp sexp_bignum_mul_body (sexp ctx, sexp dst, sexp a, sexp b);
sexp sexp_bignum_mul (sexp ctx, sexp dst, sexp a, sexp b) {
  wide p = wide_of(a) * wide_of(b);
  uwide m = (uwide) wabs(p);
  sexp r = kit_bignum(MLEN, sexp_bignum_sign(a) * sexp_bignum_sign(b));
  for (int i = 0; i < MLEN; i++) sexp_bignum_data(r)[i] = (sexp_uint_t) (m >> (64 * i));
  KIT_ASSERT((m >> (64 * MLEN)) == (uwide)0, "model result length suffices");
  return r;
}
#if MUL_MODEL >= 2
/* level 2: sexp_bignum_add / sexp_bignum_sub are specifications too (their bodies are the subject
   of the bignum_add / bignum_sub / add_digits / sub_digits queries) */
static sexp model_sum(sexp a, sexp b, int neg) {
  wide s = neg ? wide_of(a) - wide_of(b) : wide_of(a) + wide_of(b);
  uwide m = (uwide) wabs(s);
  sexp r = kit_bignum(MLEN + 1, s < (wide)0 ? -1 : 1);
  for (int i = 0; i < MLEN + 1; i++) sexp_bignum_data(r)[i] = (sexp_uint_t) (m >> (64 * i));
  KIT_ASSERT((m >> (64 * (MLEN + 1))) == (uwide)0, "model result length suffices");
  return r;
}
sexp sexp_bignum_add (sexp ctx, sexp dst, sexp a, sexp b) { return model_sum(a, b, 0); }
sexp sexp_bignum_sub (sexp ctx, sexp dst, sexp a, sexp b) { return model_sum(a, b, 1); }
#endif
#if MUL_MODEL >= 3
/* level 3: the generic sexp_add / sexp_sub on exact integers (subject of the sexp_add[..] / sexp_sub[..]
   queries): exact value, canonical representation */
static sexp model_gsum(sexp a, sexp b, int neg) {
  wide s = neg ? wide_of(a) - wide_of(b) : wide_of(a) + wide_of(b);
  if (s >= (wide)SEXP_MIN_FIXNUM && s <= (wide)SEXP_MAX_FIXNUM) return sexp_make_fixnum((sexp_sint_t)(long)s);
  return model_sum(a, b, neg);
}
sexp sexp_add (sexp ctx, sexp a, sexp b) { return model_gsum(a, b, 0); }
sexp sexp_sub (sexp ctx, sexp a, sexp b) { return model_gsum(a, b, 1); }
#endif
KIT_C_END
#define MUL_ENTRY sexp_bignum_mul_body
#else
#define MUL_ENTRY sexp_bignum_mul
#endif

void harness(void) {
  sexp ctx = kit_ctx();
#if OP == OP_ADD || OP == OP_SUB
  sexp a = big(AK), b = big(BK), dst = NULL, res;
  wide va = wide_of(a), vb = wide_of(b);
#ifdef ALIAS
  dst = a;
  /* the only aliased uses in the tree (sexp_double_to_bignum, Karatsuba recombination) add
     magnitudes of equal sign, i.e. take the add_digits path */
#if OP == OP_ADD
  __CPROVER_assume(sexp_bignum_sign(a) == sexp_bignum_sign(b));
#else
  __CPROVER_assume(sexp_bignum_sign(a) != sexp_bignum_sign(b));
#endif
#elif defined(DSTK)
  dst = big(DSTK);
#endif
#if OP == OP_ADD
  res = sexp_bignum_add(ctx, dst, a, b);
  wide expect = va + vb;
#else
  res = sexp_bignum_sub(ctx, dst, a, b);
  wide expect = va - vb;
#endif
  KIT_ASSERT(sexp_bignump(res), "result is a bignum");
  /* a zero result may carry either sign; otherwise sign*magnitude must be exact */
  KIT_ASSERT(wide_of(res) == expect, "bignum add/sub equals the mathematical sum/difference");
  KIT_ASSERT(sexp_bignum_sign(res) == 1 || sexp_bignum_sign(res) == -1, "sign is +1 or -1");
#ifndef ALIAS
  KIT_ASSERT(wide_of(a) == va, "operand a unchanged");
#endif
  KIT_ASSERT(wide_of(b) == vb || b == res, "operand b unchanged");
#elif OP == OP_CMP
  sexp a = big(AK), b = big(BK);
  wide va = wide_of(a), vb = wide_of(b);
  wide ma = va < (wide)0 ? -va : va, mb = vb < (wide)0 ? -vb : vb;
  sexp_sint_t c = sexp_bignum_compare_abs(a, b);
  KIT_ASSERT((c < 0) == (ma < mb) && (c > 0) == (ma > mb), "compare_abs orders magnitudes");
  /* compare: exclude signed zeros of opposite sign (never produced by normalised arithmetic) */
  if (va != (wide)0 || vb != (wide)0 || sexp_bignum_sign(a) == sexp_bignum_sign(b)) {
    sexp_sint_t d = sexp_bignum_compare(a, b);
    KIT_ASSERT((d < 0) == (va < vb) && (d > 0) == (va > vb), "compare orders values");
  }
  KIT_ASSERT(sexp_bignum_zerop(a) == (va == (wide)0), "zerop");
  sexp_uint_t hi = sexp_bignum_hi(a);
  KIT_ASSERT(hi >= 1 && hi <= AK, "hi in range");
  KIT_ASSERT(hi == 1 || sexp_bignum_data(a)[hi-1] != 0, "hi word is non-zero");
  for (int i = 0; i < AK; i++) if ((sexp_uint_t)i >= hi) KIT_ASSERT(sexp_bignum_data(a)[i] == 0, "words above hi are zero");
#elif OP == OP_NORM
  sexp a = big(AK);
  wide va = wide_of(a);
  sexp r = sexp_bignum_normalize(a);
  KIT_ASSERT(wide_of(r) == va, "normalize preserves the value");
  KIT_ASSERT(wide_canonical(r) || va == (wide)0, "normalize yields a fixnum iff the value fits");
  KIT_ASSERT(va != (wide)0 || r == SEXP_ZERO, "zero normalizes to fixnum 0");
#elif OP == OP_FXADD || OP == OP_FXSUB
  sexp a = big(AK);
  sexp_uint_t w = nondet_uword();
  wide va = wide_of(a);
  int sign = sexp_bignum_sign(a);
  wide ma = va < (wide)0 ? -va : va;
#if OP == OP_FXADD
  sexp r = sexp_bignum_fxadd(ctx, a, w);
  wide mr = wide_of(r); mr = mr < (wide)0 ? -mr : mr;
  KIT_ASSERT(mr == ma + (wide)(uwide)w, "fxadd adds the word to the magnitude");
  KIT_ASSERT(sexp_bignum_sign(r) == sign, "fxadd keeps the sign");
#else
  /* callers only use fxsub when it cannot underflow a multi-word magnitude */
  __CPROVER_assume(sexp_bignum_hi(a) == 1 || ma >= (wide)(uwide)w);
  sexp r = sexp_bignum_fxsub(ctx, a, w);
  wide expect = (wide)sign * (ma - (wide)(uwide)w);
  KIT_ASSERT(wide_of(r) == expect, "fxsub subtracts the word from the magnitude (sign flips on underflow)");
#endif
#elif OP == OP_F2B
  sexp x = kit_any_fixnum();
  sexp r = sexp_fixnum_to_bignum(ctx, x);
  KIT_ASSERT(sexp_bignump(r) && sexp_bignum_length(r) == 1, "one-word bignum");
  KIT_ASSERT(wide_of(r) == (wide)sexp_unbox_fixnum(x), "fixnum->bignum preserves the value");
  KIT_ASSERT(sexp_bignum_sign(r) == 1 || sexp_bignum_sign(r) == -1, "sign is +1 or -1");
#elif OP == OP_LSINT
  sexp_sint_t lo = nondet_sword();
  sexp_lsint_t x = (sexp_lsint_t) lo;            /* every value a C `long` can hold */
#ifdef WIDE128
  sexp_sint_t hi = nondet_sword();
  x = ((sexp_lsint_t)hi << 64) | (sexp_lsint_t)(sexp_uint_t)lo;   /* full 128-bit domain */
#endif
  sexp r = sexp_make_integer_from_lsint(ctx, x);
  KIT_ASSERT(wide_canonical(r), "canonical exact integer");
  KIT_ASSERT(wide_of(r) == (wide)x, "make_integer preserves the value");
#elif OP == OP_LUINT
  sexp_uint_t lo = nondet_uword(), hi = nondet_uword();
  sexp_luint_t x = ((sexp_luint_t)hi << 64) | lo;
  sexp r = sexp_make_unsigned_integer_from_luint(ctx, x);
  KIT_ASSERT(wide_canonical(r), "canonical exact integer");
  KIT_ASSERT(wide_of(r) == (wide)(uwide)x, "make_unsigned_integer preserves the value");
#elif OP == OP_ADDFIX
  sexp a = number(AK, AV), f = number(0, BV);
  wide va = wide_of(a), vf = wide_of(f);
  sexp r = sexp_bignum_add_fixnum(ctx, a, f);
  KIT_ASSERT(wide_of(r) == va + vf, "bignum + fixnum exact");
  KIT_ASSERT(wide_of(a) == va, "operand unchanged");
#elif OP == OP_GADD || OP == OP_GSUB || OP == OP_GCMP
  sexp a = number(AK, AV), b = number(BK, BV);
  wide va = wide_of(a), vb = wide_of(b);
#if OP == OP_GADD
  sexp r = sexp_add(ctx, a, b);
  KIT_ASSERT(wide_canonical(r), "sum is a canonical exact integer");
  KIT_ASSERT(wide_of(r) == va + vb, "sexp_add is exact");
#elif OP == OP_GSUB
  sexp r = sexp_sub(ctx, a, b);
  KIT_ASSERT(wide_canonical(r), "difference is a canonical exact integer");
  KIT_ASSERT(wide_of(r) == va - vb, "sexp_sub is exact");
#else
  sexp r = sexp_compare(ctx, a, b);
  KIT_ASSERT(sexp_fixnump(r), "compare returns a fixnum");
  KIT_ASSERT((sexp_unbox_fixnum(r) < 0) == (va < vb) && (sexp_unbox_fixnum(r) > 0) == (va > vb), "sexp_compare orders exact integers");
#endif
  KIT_ASSERT(wide_of(a) == va && wide_of(b) == vb, "operands unchanged");
#elif OP == OP_ADDD || OP == OP_SUBD
  sexp a = kit_any_bignum(AK, 1), b = kit_any_bignum(BK, 1);
  __CPROVER_assume(sexp_bignum_data(a)[AK-1] != 0 && sexp_bignum_data(b)[BK-1] != 0);
  sexp_bignum_sign(a) = 1; sexp_bignum_sign(b) = 1;
  wide va = wide_of(a), vb = wide_of(b);
#if OP == OP_ADDD
  sexp r = sexp_bignum_add_digits(ctx, NULL, a, b);
  sexp_bignum_sign(r) = 1;
  KIT_ASSERT(wide_of(r) == va + vb, "add_digits adds the magnitudes");
#else
  sexp r = sexp_bignum_sub_digits(ctx, NULL, a, b);
  sexp_bignum_sign(r) = 1;
  KIT_ASSERT(wide_of(r) == (va >= vb ? va - vb : vb - va), "sub_digits yields the absolute difference of the magnitudes");
#endif
  KIT_ASSERT(wide_of(a) == va && wide_of(b) == vb, "operands unchanged");
#elif OP == OP_FXMUL
  sexp a = big(AK);
  wide ma = wabs(wide_of(a));
  int sign = sexp_bignum_sign(a);
#ifdef ALIAS
  sexp r = sexp_bignum_fxmul(ctx, a, a, (sexp_uint_t)(W), 0);     /* as the number reader calls it */
#else
  sexp r = sexp_bignum_fxmul(ctx, NULL, a, (sexp_uint_t)(W), 0);
  KIT_ASSERT(wabs(wide_of(a)) == ma, "operand unchanged");
#endif
  KIT_ASSERT(sexp_bignump(r), "result is a bignum");
  KIT_ASSERT(wabs(wide_of(r)) == ma * (wide)(uwide)(sexp_uint_t)(W), "fxmul multiplies the magnitude by the word");
#elif OP == OP_FXDIV
  sexp a = big(AK);
  wide ma = wabs(wide_of(a));
  sexp_uint_t r = sexp_bignum_fxdiv(ctx, a, (sexp_uint_t)(W), 0);
  KIT_ASSERT(r < (sexp_uint_t)(W), "remainder is below the divisor");
  KIT_ASSERT(wabs(wide_of(a)) * (wide)(uwide)(sexp_uint_t)(W) + (wide)(uwide)r == ma, "fxdiv leaves the quotient in place: a == q*w + r");
#elif OP == OP_FXREM
  sexp a = big(AK);
  wide va = wide_of(a), ma = wabs(va);
  sexp r = sexp_bignum_fxrem(ctx, a, (sexp_sint_t)(W));
  KIT_ASSERT(wide_of(a) == va, "operand unchanged");
  KIT_ASSERT(sexp_fixnump(r), "remainder by a word is a fixnum");
  wide vr = (wide) sexp_unbox_fixnum(r);
  wide mw = wabs((wide)(sexp_sint_t)(W));
  KIT_ASSERT(wabs(vr) < mw, "|remainder| < |divisor|");
  KIT_ASSERT(vr == (wide)0 || sgn(vr) == sgn(va), "remainder has the sign of the dividend");
  /* the quotient witness comes from the (separately checked) in-place division of a copy */
  sexp c = sexp_copy_bignum(ctx, NULL, a, 0);
  sexp_uint_t r2 = sexp_bignum_fxdiv(ctx, c, (sexp_uint_t)((sexp_sint_t)(W) < 0 ? -(sexp_sint_t)(W) : (sexp_sint_t)(W)), 0);
  KIT_ASSERT(wabs(vr) == (wide)(uwide)r2, "fxrem agrees with fxdiv's remainder");
#elif OP == OP_MUL
  sexp a = big(AK), b = const_big();
  wide va = wide_of(a), vb = wide_of(b);
#ifdef SWAP
  sexp r = MUL_ENTRY(ctx, NULL, b, a);
#else
  sexp r = MUL_ENTRY(ctx, NULL, a, b);
#endif
  KIT_ASSERT(sexp_bignump(r), "result is a bignum");
  KIT_ASSERT(wide_of(r) == va * vb, "bignum product equals the mathematical product");
  KIT_ASSERT(wide_of(a) == va && wide_of(b) == vb, "operands unchanged");
#elif OP == OP_QUOTREM
  sexp a = big(AK), b = const_big(), rem = SEXP_VOID;
  wide va = wide_of(a), vb = wide_of(b);
  sexp q = sexp_bignum_quot_rem(ctx, &rem, a, b);
  KIT_ASSERT(sexp_fixnump(q) || sexp_bignump(q), "quotient is an exact integer");
  KIT_ASSERT(sexp_fixnump(rem) || sexp_bignump(rem), "remainder is an exact integer");
  wide vq = wide_of(q), vr = wide_of(rem);
  KIT_ASSERT(vq * vb + vr == va, "a == q*b + r");
  KIT_ASSERT(wabs(vr) < wabs(vb), "|r| < |b|");
  KIT_ASSERT(vr == (wide)0 || sgn(vr) == sgn(va), "remainder has the sign of the dividend");
  KIT_ASSERT(wide_of(a) == va && wide_of(b) == vb, "operands unchanged");
#elif OP == OP_GMUL
#ifdef BW0
  sexp a = number(AK, AV), b = const_big();
#else
  sexp a = number(AK, AV), b = number(BK, BV);
#endif
  wide va = wide_of(a), vb = wide_of(b);
#ifdef SWAP
  sexp r = sexp_mul(ctx, b, a);
#else
  sexp r = sexp_mul(ctx, a, b);
#endif
  KIT_ASSERT(wide_canonical(r), "product is a canonical exact integer");
  KIT_ASSERT(wide_of(r) == va * vb, "sexp_mul is exact");
  KIT_ASSERT(wide_of(a) == va && wide_of(b) == vb, "operands unchanged");
#elif OP == OP_GQUOREM
#ifdef BW0
  sexp a = number(AK, AV), b = const_big();
#else
  sexp a = number(AK, AV), b = number(BK, BV);
#endif
  wide va = wide_of(a), vb = wide_of(b);
  __CPROVER_assume(vb != (wide)0);
  sexp q = sexp_quotient(ctx, a, b);
  sexp r = sexp_remainder(ctx, a, b);
  KIT_ASSERT(wide_canonical(q) && wide_canonical(r), "quotient and remainder are canonical exact integers");
  wide vq = wide_of(q), vr = wide_of(r);
  KIT_ASSERT(vq * vb + vr == va, "a == quotient*b + remainder");
  KIT_ASSERT(wabs(vr) < wabs(vb), "|remainder| < |b|");
  KIT_ASSERT(vr == (wide)0 || sgn(vr) == sgn(va), "remainder has the sign of the dividend");
  KIT_ASSERT(wide_of(a) == va && wide_of(b) == vb, "operands unchanged");
#elif OP == OP_COPY
  sexp a = big(AK);
  wide va = wide_of(a);
  sexp r = sexp_copy_bignum(ctx, NULL, a, LEN0);
  KIT_ASSERT(r != a && sexp_bignump(r), "fresh bignum");
  KIT_ASSERT(sexp_bignum_length(r) == (LEN0 ? LEN0 : AK), "requested length");
  if ((LEN0 ? LEN0 : AK) >= AK) KIT_ASSERT(wide_of(r) == va, "copy preserves the value");
#endif
  KIT_WITNESS();
}
