/* C04: exact arithmetic kernels of bignum.c against a wide-integer oracle (D-full: every word
   of every operand free).  -DOP selects the kernel, -DAK/-DBK the operand word counts
   (exactly that many words, leading zero words allowed), -DALIAS makes dst alias a. */
#include "kit.h"
#include "wide.h"

KIT_C_BEGIN
sexp sexp_bignum_add_fixnum (sexp ctx, sexp a, sexp b);
sexp sexp_bignum_add_digits (sexp ctx, sexp dst, sexp a, sexp b);
sexp sexp_bignum_sub_digits (sexp ctx, sexp dst, sexp a, sexp b);
KIT_C_END

#define OP_ADD 1        /* sexp_bignum_add(ctx, dst, a, b)        */
#define OP_SUB 2        /* sexp_bignum_sub                          */
#define OP_CMP 3        /* sexp_bignum_compare / compare_abs        */
#define OP_NORM 4       /* sexp_bignum_normalize, hi, zerop         */
#define OP_FXADD 5      /* sexp_bignum_fxadd(a, w) in place         */
#define OP_FXSUB 6      /* sexp_bignum_fxsub(a, w) in place         */
#define OP_F2B 7        /* sexp_fixnum_to_bignum                    */
#define OP_LSINT 8      /* sexp_make_integer_from_lsint (|x| < 2^64 domain, see DESIGN C04 note) */
#define OP_LUINT 9      /* sexp_make_unsigned_integer_from_luint    */
#define OP_ADDFIX 10    /* sexp_bignum_add_fixnum                   */
#define OP_GADD 11      /* generic sexp_add on {fixnum,bignum}^2    */
#define OP_GSUB 12      /* generic sexp_sub                         */
#define OP_GCMP 13      /* generic sexp_compare                     */
#define OP_COPY 14      /* sexp_copy_bignum                         */

#define OP_ADDD 15      /* sexp_bignum_add_digits on magnitudes whose top word is non-zero (lengths concrete) */
#define OP_SUBD 16      /* sexp_bignum_sub_digits likewise */

#ifndef AK
#define AK 1
#endif
#ifndef BK
#define BK 1
#endif

static sexp big(int k) {               /* free bignum, sign ±1, any words */
  return kit_any_bignum(k, 0);
}
static sexp number(int k, sexp_sint_t cval) {   /* exact integer as Scheme code sees it */
  if (k == 0) return cval == 0x7fffffff ? kit_any_fixnum() : sexp_make_fixnum(cval);
  sexp b = kit_any_bignum(k, 0);
  __CPROVER_assume(wide_canonical(b));
  return b;
}
#ifndef AV
#define AV 0x7fffffff
#endif
#ifndef BV
#define BV 0x7fffffff
#endif

static int sgn(wide v) { return v < (wide)0 ? -1 : v > (wide)0 ? 1 : 0; }

void harness(void) {
  sexp ctx = kit_ctx();
#if OP == OP_ADD || OP == OP_SUB
  sexp a = big(AK), b = big(BK), dst = NULL, res;
  wide va = wide_of(a), vb = wide_of(b);
#ifdef ALIAS
  dst = a;
  /* the only aliased uses in the tree (sexp_double_to_bignum, Karatsuba recombination) add
     magnitudes of equal sign, i.e. take the add_digits path */
#if OP == OP_ADD
  __CPROVER_assume(sexp_bignum_sign(a) == sexp_bignum_sign(b));
#else
  __CPROVER_assume(sexp_bignum_sign(a) != sexp_bignum_sign(b));
#endif
#elif defined(DSTK)
  dst = big(DSTK);
#endif
#if OP == OP_ADD
  res = sexp_bignum_add(ctx, dst, a, b);
  wide expect = va + vb;
#else
  res = sexp_bignum_sub(ctx, dst, a, b);
  wide expect = va - vb;
#endif
  KIT_ASSERT(sexp_bignump(res), "result is a bignum");
  /* a zero result may carry either sign; otherwise sign*magnitude must be exact */
  KIT_ASSERT(wide_of(res) == expect, "bignum add/sub equals the mathematical sum/difference");
  KIT_ASSERT(sexp_bignum_sign(res) == 1 || sexp_bignum_sign(res) == -1, "sign is +1 or -1");
#ifndef ALIAS
  KIT_ASSERT(wide_of(a) == va, "operand a unchanged");
#endif
  KIT_ASSERT(wide_of(b) == vb || b == res, "operand b unchanged");
#elif OP == OP_CMP
  sexp a = big(AK), b = big(BK);
  wide va = wide_of(a), vb = wide_of(b);
  wide ma = va < (wide)0 ? -va : va, mb = vb < (wide)0 ? -vb : vb;
  sexp_sint_t c = sexp_bignum_compare_abs(a, b);
  KIT_ASSERT((c < 0) == (ma < mb) && (c > 0) == (ma > mb), "compare_abs orders magnitudes");
  /* compare: exclude signed zeros of opposite sign (never produced by normalised arithmetic) */
  if (va != (wide)0 || vb != (wide)0 || sexp_bignum_sign(a) == sexp_bignum_sign(b)) {
    sexp_sint_t d = sexp_bignum_compare(a, b);
    KIT_ASSERT((d < 0) == (va < vb) && (d > 0) == (va > vb), "compare orders values");
  }
  KIT_ASSERT(sexp_bignum_zerop(a) == (va == (wide)0), "zerop");
  sexp_uint_t hi = sexp_bignum_hi(a);
  KIT_ASSERT(hi >= 1 && hi <= AK, "hi in range");
  KIT_ASSERT(hi == 1 || sexp_bignum_data(a)[hi-1] != 0, "hi word is non-zero");
  for (int i = 0; i < AK; i++) if ((sexp_uint_t)i >= hi) KIT_ASSERT(sexp_bignum_data(a)[i] == 0, "words above hi are zero");
#elif OP == OP_NORM
  sexp a = big(AK);
  wide va = wide_of(a);
  sexp r = sexp_bignum_normalize(a);
  KIT_ASSERT(wide_of(r) == va, "normalize preserves the value");
  KIT_ASSERT(wide_canonical(r) || va == (wide)0, "normalize yields a fixnum iff the value fits");
  KIT_ASSERT(va != (wide)0 || r == SEXP_ZERO, "zero normalizes to fixnum 0");
#elif OP == OP_FXADD || OP == OP_FXSUB
  sexp a = big(AK);
  sexp_uint_t w = nondet_uword();
  wide va = wide_of(a);
  int sign = sexp_bignum_sign(a);
  wide ma = va < (wide)0 ? -va : va;
#if OP == OP_FXADD
  sexp r = sexp_bignum_fxadd(ctx, a, w);
  wide mr = wide_of(r); mr = mr < (wide)0 ? -mr : mr;
  KIT_ASSERT(mr == ma + (wide)(uwide)w, "fxadd adds the word to the magnitude");
  KIT_ASSERT(sexp_bignum_sign(r) == sign, "fxadd keeps the sign");
#else
  /* callers only use fxsub when it cannot underflow a multi-word magnitude */
  __CPROVER_assume(sexp_bignum_hi(a) == 1 || ma >= (wide)(uwide)w);
  sexp r = sexp_bignum_fxsub(ctx, a, w);
  wide expect = (wide)sign * (ma - (wide)(uwide)w);
  KIT_ASSERT(wide_of(r) == expect, "fxsub subtracts the word from the magnitude (sign flips on underflow)");
#endif
#elif OP == OP_F2B
  sexp x = kit_any_fixnum();
  sexp r = sexp_fixnum_to_bignum(ctx, x);
  KIT_ASSERT(sexp_bignump(r) && sexp_bignum_length(r) == 1, "one-word bignum");
  KIT_ASSERT(wide_of(r) == (wide)sexp_unbox_fixnum(x), "fixnum->bignum preserves the value");
  KIT_ASSERT(sexp_bignum_sign(r) == 1 || sexp_bignum_sign(r) == -1, "sign is +1 or -1");
#elif OP == OP_LSINT
  sexp_sint_t lo = nondet_sword();
  sexp_lsint_t x = (sexp_lsint_t) lo;            /* every value a C `long` can hold */
#ifdef WIDE128
  sexp_sint_t hi = nondet_sword();
  x = ((sexp_lsint_t)hi << 64) | (sexp_lsint_t)(sexp_uint_t)lo;   /* full 128-bit domain */
#endif
  sexp r = sexp_make_integer_from_lsint(ctx, x);
  KIT_ASSERT(wide_canonical(r), "canonical exact integer");
  KIT_ASSERT(wide_of(r) == (wide)x, "make_integer preserves the value");
#elif OP == OP_LUINT
  sexp_uint_t lo = nondet_uword(), hi = nondet_uword();
  sexp_luint_t x = ((sexp_luint_t)hi << 64) | lo;
  sexp r = sexp_make_unsigned_integer_from_luint(ctx, x);
  KIT_ASSERT(wide_canonical(r), "canonical exact integer");
  KIT_ASSERT(wide_of(r) == (wide)(uwide)x, "make_unsigned_integer preserves the value");
#elif OP == OP_ADDFIX
  sexp a = number(AK, AV), f = number(0, BV);
  wide va = wide_of(a), vf = wide_of(f);
  sexp r = sexp_bignum_add_fixnum(ctx, a, f);
  KIT_ASSERT(wide_of(r) == va + vf, "bignum + fixnum exact");
  KIT_ASSERT(wide_of(a) == va, "operand unchanged");
#elif OP == OP_GADD || OP == OP_GSUB || OP == OP_GCMP
  sexp a = number(AK, AV), b = number(BK, BV);
  wide va = wide_of(a), vb = wide_of(b);
#if OP == OP_GADD
  sexp r = sexp_add(ctx, a, b);
  KIT_ASSERT(wide_canonical(r), "sum is a canonical exact integer");
  KIT_ASSERT(wide_of(r) == va + vb, "sexp_add is exact");
#elif OP == OP_GSUB
  sexp r = sexp_sub(ctx, a, b);
  KIT_ASSERT(wide_canonical(r), "difference is a canonical exact integer");
  KIT_ASSERT(wide_of(r) == va - vb, "sexp_sub is exact");
#else
  sexp r = sexp_compare(ctx, a, b);
  KIT_ASSERT(sexp_fixnump(r), "compare returns a fixnum");
  KIT_ASSERT((sexp_unbox_fixnum(r) < 0) == (va < vb) && (sexp_unbox_fixnum(r) > 0) == (va > vb), "sexp_compare orders exact integers");
#endif
  KIT_ASSERT(wide_of(a) == va && wide_of(b) == vb, "operands unchanged");
#elif OP == OP_ADDD || OP == OP_SUBD
  sexp a = kit_any_bignum(AK, 1), b = kit_any_bignum(BK, 1);
  __CPROVER_assume(sexp_bignum_data(a)[AK-1] != 0 && sexp_bignum_data(b)[BK-1] != 0);
  sexp_bignum_sign(a) = 1; sexp_bignum_sign(b) = 1;
  wide va = wide_of(a), vb = wide_of(b);
#if OP == OP_ADDD
  sexp r = sexp_bignum_add_digits(ctx, NULL, a, b);
  sexp_bignum_sign(r) = 1;
  KIT_ASSERT(wide_of(r) == va + vb, "add_digits adds the magnitudes");
#else
  sexp r = sexp_bignum_sub_digits(ctx, NULL, a, b);
  sexp_bignum_sign(r) = 1;
  KIT_ASSERT(wide_of(r) == (va >= vb ? va - vb : vb - va), "sub_digits yields the absolute difference of the magnitudes");
#endif
  KIT_ASSERT(wide_of(a) == va && wide_of(b) == vb, "operands unchanged");
#elif OP == OP_COPY
  sexp a = big(AK);
  wide va = wide_of(a);
  sexp r = sexp_copy_bignum(ctx, NULL, a, LEN0);
  KIT_ASSERT(r != a && sexp_bignump(r), "fresh bignum");
  KIT_ASSERT(sexp_bignum_length(r) == (LEN0 ? LEN0 : AK), "requested length");
  if ((LEN0 ? LEN0 : AK) >= AK) KIT_ASSERT(wide_of(r) == va, "copy preserves the value");
#endif
  KIT_WITNESS();
}
