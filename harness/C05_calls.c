/* C05 / C06 (C core): frame discipline of the VM as sliced case bodies of sexp_apply.
   OP 1 TAIL_CALL: the callee's frame replaces the caller's (constant space per iteration).
   OP 2 RET: the frame is popped and the caller's registers come back.
   OP 3 CALLCC: the continuation captures exactly stack[0, top+4).
   OP 4 RESUMECC: re-entering restores the captured words and registers and delivers the value.
   OP 5 sexp_grow_stack: contents preserved, limit respected.
   OP 7 make_call (the shared tail of CALL / TAIL_CALL / APPLY1 / CALLCC): applicability, arity, rest list,
        frame header.
   OP 8 the slot index the compiler computes for a variable (sexp_param_index of eval.c) against the frame
        make_call builds and the slot LOCAL_REF / LOCAL_SET touch. */
#include "kit.h"
#include "kitfull.h"
enum { VM_EXIT_NEXT = 1, VM_EXIT_LOOP, VM_EXIT_ERROR, VM_EXIT_END, VM_EXIT_MAKE_CALL, VM_EXIT_APPLY1, VM_EXIT_CHECK_TYPE };
#define DECL(op) int vm_slice_##op(sexp ctx, sexp *self_io, sexp *stack, sexp_sint_t *top_io, sexp_sint_t *fp_io, unsigned char **ip_io, sexp *cp_io, sexp *bc_io, sexp *tmp1_io, sexp_sint_t *i_io);
KIT_C_BEGIN
DECL(TAIL_CALL) DECL(RET) DECL(CALLCC) DECL(RESUMECC) DECL(LABEL_make_call) DECL(LOCAL_REF) DECL(LOCAL_SET)
int sexp_param_index (sexp ctx, sexp lambda, sexp name);
int vm_export_grow_stack(sexp ctx, int min_size);
KIT_C_END

#ifndef DEPTH
#define DEPTH 24
#endif
static sexp mk_proc(sexp bc, sexp vars) {
  sexp p = kit_alloc_tagged(sexp_sizeof(procedure), SEXP_PROCEDURE);
  sexp_procedure_code(p) = bc; sexp_procedure_vars(p) = vars;
  return p;
}
static sexp mk_bc(int len) {
  sexp bc = kit_alloc_tagged(sexp_sizeof(bytecode) + len, SEXP_BYTECODE);
  sexp_bytecode_length(bc) = len;
  return bc;
}
#define MARK(k) sexp_make_fixnum(1000 + (k))

void harness(void) {
  sexp ctx = kit_ctx_full();
  sexp stk = kit_alloc_tagged(sexp_sizeof(stack) + DEPTH * sizeof(sexp), SEXP_STACK);
  sexp_stack_length(stk) = DEPTH;
  sexp_context_stack(ctx) = stk;
  sexp *stack = sexp_stack_data(stk);
  for (int k = 0; k < DEPTH; k++) stack[k] = MARK(k);
  sexp caller_bc = mk_bc(48), callee_bc = mk_bc(48);
  sexp caller = mk_proc(caller_bc, SEXP_FALSE), cur = mk_proc(callee_bc, SEXP_FALSE), f = mk_proc(callee_bc, SEXP_FALSE);
  sexp self = cur, cp = SEXP_FALSE, bc = callee_bc, tmp1 = SEXP_FALSE;
  sexp_sint_t top, fp, iout = -1;
  unsigned char *ip;
#if OP == 8
#define OP7_BODY 1
#endif
#if OP == 1 || OP == 2
  /* current frame: base words, j arguments, frame header, nloc locals */
  sexp_sint_t base = 2, j = nondet_sword(), nloc = nondet_sword(), prev_fp = nondet_sword(), retoff = nondet_sword();
  __CPROVER_assume(j >= 0 && j <= 2 && nloc >= 0 && nloc <= 2 && prev_fp >= 0 && prev_fp < 1000 && retoff >= 8 && retoff <= 40 && (retoff & 7) == 0);
  fp = base + j;
  stack[fp] = sexp_make_fixnum(j); stack[fp+1] = sexp_make_fixnum(retoff); stack[fp+2] = caller; stack[fp+3] = sexp_make_fixnum(prev_fp);
  top = fp + 4 + nloc;
#endif
#if OP == 1
  sexp_sint_t i = nondet_sword();
  __CPROVER_assume(i >= 0 && i <= 2);
  sexp newarg[2] = { kit_flonum(1.0), kit_flonum(2.0) };
  for (int k = 0; k < 2; k++) if (k < i) stack[top++] = newarg[k];
  stack[top++] = f;
  /* operand word of the instruction: the number of arguments */
  sexp *code = (sexp *)sexp_bytecode_data(callee_bc);
  code[1] = sexp_make_fixnum(i);
  ip = (unsigned char *)&code[1];
  int ex = vm_slice_TAIL_CALL(ctx, &self, stack, &top, &fp, &ip, &cp, &bc, &tmp1, &iout);
  KIT_ASSERT(ex == VM_EXIT_MAKE_CALL && tmp1 == f && iout == i, "tail call proceeds to the call sequence with the callee and its argument count");
  KIT_ASSERT(top == base + i + 1 && stack[top-1] == f, "the new arguments and the callee sit exactly where the old frame's arguments began: the frame is replaced, not stacked");
  for (int k = 0; k < 2; k++) if (k < i) KIT_ASSERT(stack[base + k] == newarg[k], "arguments are moved down in order");
  KIT_ASSERT(fp == prev_fp && self == caller && bc == caller_bc, "the caller's frame pointer and procedure are reinstated (the callee will return to the caller's caller)");
  KIT_ASSERT(ip == sexp_bytecode_data(caller_bc) + retoff - sizeof(sexp), "the return address is the caller's");
  for (int k = 0; k < base; k++) KIT_ASSERT(stack[k] == MARK(k), "words below the frame are untouched");
#elif OP == 2
  sexp r = kit_flonum(7.0);
  stack[top++] = r;
  ip = sexp_bytecode_data(callee_bc) + 8;
  int ex = vm_slice_RET(ctx, &self, stack, &top, &fp, &ip, &cp, &bc, &tmp1, &iout);
  KIT_ASSERT(ex == VM_EXIT_NEXT, "return completes");
  KIT_ASSERT(top == base + 1 && stack[base] == r, "the result replaces the arguments: the whole frame is popped");
  KIT_ASSERT(fp == prev_fp && self == caller && bc == caller_bc && ip == sexp_bytecode_data(caller_bc) + retoff, "the caller's registers come back");
  for (int k = 0; k < base; k++) KIT_ASSERT(stack[k] == MARK(k), "words below the frame are untouched");
#elif OP == 3 || OP == 4
  sexp_sint_t T = TCONST, cfp = nondet_sword(), ipoff = nondet_sword();   /* stack depth enumerated per query: keeps the captured vector's size concrete */
  __CPROVER_assume(T >= 2 && T <= 5 && cfp >= 0 && cfp < T && ipoff >= 8 && ipoff <= 32 && (ipoff & 7) == 0);
  sexp resume_bc = mk_bc(16);
  sexp_global(ctx, SEXP_G_RESUMECC_BYTECODE) = resume_bc;
  top = T; fp = cfp;
  stack[top-1] = f;                               /* (call/cc f) */
  ip = sexp_bytecode_data(callee_bc) + ipoff;
  int ex = vm_slice_CALLCC(ctx, &self, stack, &top, &fp, &ip, &cp, &bc, &tmp1, &iout);
  KIT_ASSERT(ex == VM_EXIT_MAKE_CALL && tmp1 == f && iout == 1 && top == T + 1, "call/cc calls f with one argument");
  sexp k = stack[T-1];
  KIT_ASSERT(sexp_procedurep(k) && sexp_procedure_code(k) == resume_bc && sexp_vectorp(sexp_procedure_vars(k)) && sexp_vector_length(sexp_procedure_vars(k)) == 1, "the argument is a continuation procedure");
  sexp saved = sexp_vector_data(sexp_procedure_vars(k))[0];
  KIT_ASSERT(sexp_vectorp(saved) && (sexp_sint_t)sexp_vector_length(saved) == T + 4, "it captures exactly stack[0, top+4)");
  for (int q = 0; q < 5; q++) if (q < T - 1) KIT_ASSERT(sexp_vector_data(saved)[q] == MARK(q), "captured words are the stack words");
  KIT_ASSERT(sexp_vector_data(saved)[T-1] == f && sexp_vector_data(saved)[T] == SEXP_ONE && sexp_vector_data(saved)[T+1] == sexp_make_fixnum(ipoff)
             && sexp_vector_data(saved)[T+2] == cur && sexp_vector_data(saved)[T+3] == sexp_make_fixnum(cfp), "and the frame header of the capturing point (ip, self, fp)");
#if OP == 4
  /* later: the stack has changed arbitrarily; k is applied to v.  Frame of the resumer: [v][1][ip][k][fp] */
  for (int q = 0; q < DEPTH; q++) stack[q] = kit_any_fixnum();
  /* ... "arbitrarily" includes words that happen to equal the captured ones (another activation of the same
     call site at the same depth has the same frame header over different arguments): each word below the
     captured top is either anything or the captured word */
  for (int q = 0; q < T + 4; q++) if (nondet_bool()) stack[q] = sexp_vector_data(saved)[q];
  sexp v = kit_flonum(9.0);
  sexp_sint_t rfp = nondet_sword();
  __CPROVER_assume(rfp >= 1 && rfp <= 12);
  stack[rfp-1] = v; stack[rfp] = SEXP_ONE; stack[rfp+1] = SEXP_ZERO; stack[rfp+2] = k; stack[rfp+3] = SEXP_ZERO;
  top = rfp + 4; fp = rfp; self = k; cp = sexp_procedure_vars(k); bc = resume_bc;
  ip = sexp_bytecode_data(resume_bc) + 1;
  ex = vm_slice_RESUMECC(ctx, &self, stack, &top, &fp, &ip, &cp, &bc, &tmp1, &iout);
  KIT_ASSERT(ex == VM_EXIT_NEXT, "resuming completes");
  KIT_ASSERT(top == T && stack[T-1] == v, "the passed value is delivered where call/cc's result is expected");
  for (int q = 0; q < 5; q++) if (q < T - 1) KIT_ASSERT(stack[q] == MARK(q), "the stack contents captured by the continuation are restored");
  KIT_ASSERT(fp == cfp && self == cur && bc == callee_bc && ip == sexp_bytecode_data(callee_bc) + ipoff, "registers of the capturing point are restored");
#endif
#elif OP == 7 || OP == 8
  /* callee: NA fixed parameters, variadic or not, rest parameter used or not (per query); i actual arguments (free, 0..3).
     Stack: BASE marker words, the i arguments (first argument highest), the callee on top. */
  sexp callee = mk_proc(callee_bc, kit_vector(1));
  sexp_procedure_num_args(callee) = NA;
  sexp_procedure_flags(callee) = sexp_make_fixnum((VARIADIC ? SEXP_PROC_VARIADIC : 0) | (UNUSED_REST ? SEXP_PROC_UNUSED_REST : 0));
  sexp_bytecode_max_depth(callee_bc) = 8;
  sexp arg[3] = { kit_flonum(1.0), kit_flonum(2.0), kit_flonum(3.0) };
  sexp_sint_t base = 3, i = nondet_sword(), fp0 = nondet_sword(), ipoff = nondet_sword();
#if OP == 8
  __CPROVER_assume(i >= NA && (VARIADIC || i == NA));      /* a well-formed call: the arity error paths are OP 7's subject */
#endif
  __CPROVER_assume(i >= 0 && i <= 3 && fp0 >= 0 && fp0 < 1000 && ipoff >= 8 && ipoff <= 32 && (ipoff & 7) == 0);
  for (int m = 0; m < 3; m++) if (m < i) stack[base + (i - 1 - m)] = arg[m];          /* argument m sits at top-2-m */
  top = base + i;
#if CALLEE_KIND == 0
  sexp target = callee;
#elif CALLEE_KIND == 1
  sexp target = kit_pair(SEXP_ONE, SEXP_NULL);      /* not applicable */
#else
  sexp target = sexp_make_fixnum(5);                /* not applicable */
#endif
  stack[top++] = target;
  sexp_sint_t top0 = top;
  self = cur; bc = caller_bc; cp = SEXP_FALSE; fp = fp0;
  ip = sexp_bytecode_data(caller_bc) + ipoff;
  tmp1 = target; iout = i;
  int ex = vm_slice_LABEL_make_call(ctx, &self, stack, &top, &fp, &ip, &cp, &bc, &tmp1, &iout);
  for (int k = 0; k < base; k++) KIT_ASSERT(stack[k] == MARK(k), "words below the arguments are untouched");
#if CALLEE_KIND != 0
  KIT_ASSERT(ex == VM_EXIT_ERROR && sexp_exceptionp(stack[top-1]), "applying a non-procedure raises an error object");
#else
  if (i < NA || (i > NA && !VARIADIC)) {
    KIT_ASSERT(ex == VM_EXIT_ERROR && sexp_exceptionp(stack[top-1]), "a call with the wrong number of arguments raises an error object");
    KIT_ASSERT(self == cur && fp == fp0, "and control stays in the caller");
  } else {
    sexp_sint_t nargs = (VARIADIC && !UNUSED_REST) ? NA + 1 : i;
    sexp_sint_t P = base + nargs;                    /* slot of the argument count */
    KIT_ASSERT(ex == VM_EXIT_NEXT, "the call proceeds");
    KIT_ASSERT(top == P + 4 && fp == P, "the frame header sits right above the (re-packed) arguments");
    KIT_ASSERT(stack[P] == sexp_make_fixnum(nargs), "argument count as the callee expects it");
    KIT_ASSERT(stack[P+1] == sexp_make_fixnum(ipoff + sizeof(sexp)) && stack[P+2] == cur && stack[P+3] == sexp_make_fixnum(fp0), "return address, caller procedure and caller frame pointer are saved");
    KIT_ASSERT(self == callee && bc == callee_bc && ip == sexp_bytecode_data(callee_bc) && cp == sexp_procedure_vars(callee), "registers switch to the callee");
    for (int m = 0; m < 3; m++) if (m < NA) KIT_ASSERT(stack[P-1-m] == arg[m], "fixed parameter m receives argument m");
#if VARIADIC && !UNUSED_REST
    sexp rest = stack[P-1-NA];
    for (int m = NA; m < 3; m++) {
      if (m < i) { KIT_ASSERT(sexp_pairp(rest) && sexp_car(rest) == arg[m], "the rest list holds the extra arguments in order"); rest = sexp_cdr(rest); }
    }
    KIT_ASSERT(rest == SEXP_NULL, "and nothing else");
#elif VARIADIC
    for (int m = 0; m < 3; m++) if (m < i) KIT_ASSERT(stack[P-1-m] == arg[m], "with an unused rest parameter the arguments stay in place");
#endif
#if OP == 8
    /* the callee's lambda: NA parameter names, a rest name if variadic, NLOC internal definitions; locals live
       right above the frame header */
    sexp pname[3] = { kit_symbol(1), kit_symbol(1), kit_symbol(1) }, rname = kit_symbol(1), lname[2] = { kit_symbol(1), kit_symbol(1) };
    sexp lam = kit_alloc_tagged(sexp_sizeof(lambda), SEXP_LAMBDA);
    sexp params = VARIADIC ? rname : SEXP_NULL;
    for (int m = 2; m >= 0; m--) if (m < NA) params = kit_pair(pname[m], params);
    sexp locals = SEXP_NULL;
    for (int m = 1; m >= 0; m--) if (m < NLOC) locals = kit_pair(lname[m], locals);
    sexp_lambda_params(lam) = params; sexp_lambda_locals(lam) = locals;
    sexp lval[2] = { kit_flonum(11.0), kit_flonum(12.0) };
    for (int m = 0; m < 2; m++) if (m < NLOC) stack[top++] = lval[m];
    sexp *code = (sexp *)sexp_bytecode_data(callee_bc);
    sexp_sint_t top1 = top;
    for (int m = 0; m < 3 + 1 + 2; m++) {
      sexp name; sexp expect;
      if (m < 3) { if (m >= NA) continue; name = pname[m]; expect = arg[m]; }
      else if (m == 3) { if (!(VARIADIC && !UNUSED_REST)) continue; name = rname; expect = stack[P-1-NA]; }
      else { if (m - 4 >= NLOC) continue; name = lname[m-4]; expect = lval[m-4]; }
      int idx = sexp_param_index(ctx, lam, name);
      ((sexp_sint_t *)code)[1] = idx;
      ip = (unsigned char *)&code[1];
      ex = vm_slice_LOCAL_REF(ctx, &self, stack, &top, &fp, &ip, &cp, &bc, &tmp1, &iout);
      KIT_ASSERT(ex == VM_EXIT_NEXT && top == top1 + 1 && stack[top-1] == expect, "a variable reference compiled with sexp_param_index reads the slot where the call sequence put that variable");
      /* assignment through the same index writes that slot and no other */
      sexp nv = kit_flonum(77.0);
      stack[top-1] = nv;
      ip = (unsigned char *)&code[1];
      ex = vm_slice_LOCAL_SET(ctx, &self, stack, &top, &fp, &ip, &cp, &bc, &tmp1, &iout);
      KIT_ASSERT(ex == VM_EXIT_NEXT && top == top1, "set! pops its operand");
      for (int q = 0; q < 20; q++) if (q < top1) {
        int is_slot = (m < 3) ? q == P-1-m : (m == 3) ? q == P-1-NA : q == P+4+(m-4);
        if (is_slot) KIT_ASSERT(stack[q] == nv, "set! stores into the variable's slot");
      }
      KIT_ASSERT(stack[P] == sexp_make_fixnum(nargs) && stack[P+2] == cur && stack[P+3] == sexp_make_fixnum(fp0), "and leaves the frame header alone");
      /* restore for the next variable */
      if (m < 3) stack[P-1-m] = arg[m]; else if (m == 3) stack[P-1-NA] = expect; else stack[P+4+(m-4)] = lval[m-4];
    }
#endif
  }
#endif
#elif OP == 5
  sexp_sint_t t = nondet_sword(), want = WANT;    /* requested minimum size enumerated per query */
  __CPROVER_assume(t >= 0 && t <= DEPTH - 2);
  sexp_context_top(ctx) = t;
  int ok = vm_export_grow_stack(ctx, (int)want);
  sexp ns = sexp_context_stack(ctx);
  sexp_sint_t need = 2 * DEPTH > want ? 2 * DEPTH : want;
  if (need > SEXP_MAX_STACK_SIZE) need = SEXP_MAX_STACK_SIZE;
  if (ok) {
    KIT_ASSERT(ns != stk && sexp_pointer_tag(ns) == SEXP_STACK, "a successful growth installs a new stack object");
    KIT_ASSERT((sexp_sint_t)sexp_stack_length(ns) > DEPTH, "a successful growth makes the stack strictly longer");
    KIT_ASSERT((sexp_sint_t)sexp_stack_length(ns) >= need, "the new stack is at least twice as long and as long as requested, up to the maximum");
    KIT_ASSERT((sexp_sint_t)sexp_stack_length(ns) <= SEXP_MAX_STACK_SIZE, "the stack never exceeds the configured maximum");
    for (int q = 0; q < DEPTH; q++) if (q <= t) KIT_ASSERT(sexp_stack_data(ns)[q] == MARK(q), "live stack contents are preserved");
  } else {
    KIT_ASSERT(sexp_context_stack(ctx) == stk, "a refused growth leaves the stack in place");
    KIT_ASSERT(DEPTH == SEXP_MAX_STACK_SIZE, "growth is refused only when the stack already has the maximum size");
  }
  KIT_ASSERT(DEPTH < SEXP_MAX_STACK_SIZE || !ok, "a stack of the maximum size cannot grow: the caller must get the refusal (out-of-stack error path)");
#endif
  KIT_WITNESS();
}
