/* C08: native writer -> text -> native reader on in-memory ports, for the token classes whose
   external representation is decided by C code in sexp.c: symbols (quoting predicate and escapes
   of sexp_write_one vs. the tokeniser of sexp_read_raw / sexp_read_symbol / sexp_read_string),
   strings (escapes), characters (names and #\x literals).
   -DKINDSEL: 1 symbol, 2 string, 3 char;  -DN: number of free bytes (symbol/string).
   sexp_intern is replaced by a recording model (the reader's tokenisation is the subject; the
   symbol table is not): it must be called exactly once, with the bytes of the written symbol. */
#include "kit.h"
#include "kitfull.h"

#ifndef N
#define N 2
#endif
#ifndef OBUF
#define OBUF 16
#endif
#ifndef TAIL
#define TAIL ' '
#endif

KIT_C_BEGIN
sexp sexp_write_one (sexp ctx, sexp obj, sexp out, sexp_sint_t bound);
/* sexp_intern model: a small content-addressed symbol table (equal names <=> same object), which
   is all the reader relies on; the real table is not the subject here */
#define MAXSYM 4
static char tab_bytes[MAXSYM][OBUF];
static sexp_sint_t tab_len[MAXSYM];
static sexp tab_sym[MAXSYM];
static int tab_n;
sexp sexp_intern (sexp ctx, const char *str, sexp_sint_t len) {
  if (len < 0) len = strlen(str);
  KIT_ASSERT(len < OBUF, "symbol name fits the model table");
  for (int k = 0; k < MAXSYM; k++) if (k < tab_n && tab_len[k] == len) {
    int same = 1;
    for (int i = 0; i < OBUF; i++) if (i < len && tab_bytes[k][i] != str[i]) same = 0;
    if (same) return tab_sym[k];
  }
  KIT_ASSERT(tab_n < MAXSYM, "model symbol table large enough");
  for (int i = 0; i < OBUF; i++) if (i < len) tab_bytes[tab_n][i] = str[i];
  tab_len[tab_n] = len;
  tab_sym[tab_n] = kit_symbol(0);
  return tab_sym[tab_n++];
}
KIT_C_END

static char obuf[OBUF], ibuf[OBUF + 2];

static sexp mk_port(int tag, char *buf, size_t off, size_t size, int openp) {
  sexp p = kit_alloc_tagged(sexp_sizeof(port), tag);
  sexp_port_buf(p) = buf; sexp_port_offset(p) = off; sexp_port_size(p) = size;
  sexp_port_stream(p) = NULL; sexp_port_openp(p) = openp;
  sexp_port_cookie(p) = SEXP_FALSE; sexp_port_fd(p) = SEXP_FALSE; sexp_port_name(p) = SEXP_FALSE;
  sexp_port_line(p) = 1; sexp_port_flags(p) = 0;
  sexp_port_bidirp(p) = 0; sexp_port_binaryp(p) = 0; sexp_port_sourcep(p) = 0; sexp_port_fold_casep(p) = 0;
  return p;
}

static void read_back(sexp ctx, sexp obj, size_t tlen) {
  /* the text is followed by delimiters (-DTAIL, default blank) up to a constant buffer size: with a
     symbolic size even the first read would be a symbolic choice between a byte and EOF */
  sexp in = mk_port(SEXP_IPORT, ibuf, 1, OBUF + 1, 0);
  sexp shares = SEXP_FALSE;
#if KINDSEL == 1
  sexp expect = sexp_intern(ctx, sexp_lsymbol_data(obj), N);     /* the symbol of that name */
#endif
  sexp res = sexp_read_raw(ctx, in, &shares);
  KIT_ASSERT(sexp_port_offset(in) == 1 + tlen, "the reader consumes exactly the written text");
#if KINDSEL == 1
  KIT_ASSERT(res == expect, "the written symbol reads back as the symbol of the same name");
#elif KINDSEL == 2
  KIT_ASSERT(sexp_stringp(res), "the written string reads back as a string");
  KIT_ASSERT(sexp_string_size(res) == N, "same byte length");
  for (int i = 0; i < N; i++) KIT_ASSERT(sexp_string_data(res)[i] == sexp_string_data(obj)[i], "same bytes");
#else
  KIT_ASSERT(res == obj, "the written character reads back as the same character");
#endif
}

void harness(void) {
  sexp ctx = kit_ctx_full();
  sexp obj;
#if KINDSEL == 1
  obj = kit_symbol(N);
  for (int i = 0; i < N; i++) { char c = (char) nondet_uchar(); __CPROVER_assume(c != 0); sexp_lsymbol_data(obj)[i] = c; }
#ifdef FIRST
  /* the first byte is a constant of this query (one query per byte class): the tokeniser's
     dispatch on the first character is then decided by symex instead of being explored 40-fold */
  sexp_lsymbol_data(obj)[0] = (char)(FIRST);
#endif
  sexp_lsymbol_data(obj)[N] = 0;
#elif KINDSEL == 2
  sexp bytes = kit_bytes(N);
  for (int i = 0; i < N; i++) { char c = (char) nondet_uchar(); __CPROVER_assume(c != 0); sexp_bytes_data(bytes)[i] = c; }
#ifdef FIRST
  sexp_bytes_data(bytes)[0] = (char)(FIRST);
#endif
  sexp_bytes_data(bytes)[N] = 0;
  obj = kit_string_over(bytes, 0, N);
#else
#ifdef CHV
  unsigned cv = (CHV);                       /* a named character (constant) */
#else
  unsigned cv = (unsigned) nondet_uword();
  __CPROVER_assume(cv <= 0x10FFFF && !(cv >= 0xD800 && cv <= 0xDFFF));
  __CPROVER_assume(cv >= (CHLO) && cv <= (CHHI));   /* one query per width class of the #\x notation */
#endif
  obj = sexp_make_character(cv);
#endif
  /* ---- write ---- */
  sexp out = mk_port(SEXP_OPORT, obuf, 0, OBUF, 1);
  sexp_write_one(ctx, obj, out, 0);
  size_t tlen = sexp_port_offset(out);
  KIT_ASSERT(tlen >= 1 && tlen < OBUF, "the written text fits the port buffer");
  /* ---- read the text back (closed string port: EOF after the last byte) ---- */
  ibuf[0] = ' ';
  for (size_t i = 0; i < OBUF; i++) ibuf[1 + i] = i < tlen ? obuf[i] : (char)(TAIL);
  /* the first character of the text is one of two constants (quoted or not / the fixed delimiter):
     reading is done separately under each, so that the tokeniser's dispatch folds in symex */
#if KINDSEL == 1 && defined(FIRST)
#ifdef ONLYQ
  __CPROVER_assume(ONLYQ ? obuf[0] == '|' : obuf[0] != '|');
#endif
  if (obuf[0] == '|') { ibuf[1] = '|'; read_back(ctx, obj, tlen); }
  else {
    KIT_ASSERT(obuf[0] == (char)(FIRST), "an unquoted symbol starts with its first byte");
#ifdef MUSTQUOTE
    /* FIRST begins other syntax for any reader (delimiter, quote/quasiquote prefix, #, comment, blank) */
    KIT_ASSERT(0, "a symbol whose name starts with a delimiter or prefix character is written |quoted|");
#else
    ibuf[1] = (char)(FIRST); read_back(ctx, obj, tlen);
#endif
  }
#elif KINDSEL == 2
  KIT_ASSERT(obuf[0] == '"', "a string is written in double quotes"); ibuf[1] = '"'; read_back(ctx, obj, tlen);
#elif KINDSEL == 3
  KIT_ASSERT(obuf[0] == '#' && obuf[1] == '\\', "a character is written as #\\..."); ibuf[1] = '#'; ibuf[2] = '\\'; read_back(ctx, obj, tlen);
#else
  read_back(ctx, obj, tlen);
#endif
  KIT_WITNESS();
}
