/* C08 (C kernels): the UTF-8 character-literal decoder of the native reader. */
#include "kit.h"
#include "kitfull.h"
KIT_C_BEGIN
int kit_decode_utf8_char(const unsigned char *s);
KIT_C_END
void harness(void) {
  sexp ctx = kit_ctx_full();
#if PART == 1
  unsigned c = (unsigned) nondet_uword();
  __CPROVER_assume(c >= 0x80 && c <= 0x10FFFF && !(c >= 0xD800 && c <= 0xDFFF));
  unsigned char buf[5] = {0, 0, 0, 0, 0};
  int len = sexp_utf8_char_byte_count(c);
  sexp_utf8_encode_char(buf, len, c);
  KIT_ASSERT(kit_decode_utf8_char(buf) == (int)c, "the #\\x literal decoder inverts the UTF-8 encoder for every non-ASCII scalar value");
#else
  /* hostile bytes: total, and never a value for an ill-formed prefix of the right length */
  unsigned char raw[5];
  for (int i = 0; i < 4; i++) raw[i] = nondet_uchar();
  raw[4] = 0;
  int r = kit_decode_utf8_char(raw);
  KIT_ASSERT(r >= -1 && r <= 0x1FFFFF, "decoder is total on arbitrary bytes");
  if (r >= 0) KIT_ASSERT(raw[0] >= 0xC0 && (raw[1] >> 6) == 2, "a value is only produced for a lead byte followed by a continuation byte");
#endif
  KIT_WITNESS();
}
