/* C09(a): the 128-bit emulation of include/chibi/bignum.h (SEXP_USE_CUSTOM_LONG_LONGS=1)
   against the native __int128 expression that the macro of the same name expands to in the
   default build.  Compiled with -DSEXP_USE_CUSTOM_LONG_LONGS=1.  All 128 bits of every
   operand are free unless the kernel multiplies or divides (R7 domains via -DDOM). */
#include "kit.h"
typedef unsigned __int128 u128;
typedef __int128 s128;

static sexp_luint_t mk_u(u128 v) { sexp_luint_t r; r.hi = (uint64_t)(v >> 64); r.lo = (uint64_t)v; return r; }
static sexp_lsint_t mk_s(s128 v) { sexp_lsint_t r; r.hi = (int64_t)(v >> 64); r.lo = (uint64_t)v; return r; }
static u128 un_u(sexp_luint_t r) { return ((u128)r.hi << 64) | r.lo; }
static s128 un_s(sexp_lsint_t r) { return (s128)(((u128)(uint64_t)r.hi << 64) | r.lo); }
static u128 any_u128(void) { return ((u128)nondet_uword() << 64) | nondet_uword(); }

/* D-lattice word */
static sexp_uint_t lattice_word(void) {
  unsigned char s = nondet_uchar();
  switch (s % 12) {
  case 0: return 0; case 1: return 1; case 2: return 2; case 3: return 3;
  case 4: return 1UL << 31; case 5: return (1UL << 32) - 1; case 6: return 1UL << 32; case 7: return (1UL << 32) + 1;
  case 8: return (1UL << 63) - 1; case 9: return 1UL << 63; case 10: return ~0UL - 1; default: return ~0UL;
  }
}

#define OP_ADDSUB 1
#define OP_SHIFT 2
#define OP_CMP 3
#define OP_CONV 4
#define OP_NEG 5
#define OP_MULU 6
#define OP_MULS 7
#define OP_DIV 8

void harness(void) {
#if OP == OP_ADDSUB
  u128 a = any_u128(), b = any_u128(); sexp_uint_t w = nondet_uword();
  KIT_ASSERT(un_u(luint_add(mk_u(a), mk_u(b))) == a + b, "luint_add");
  KIT_ASSERT(un_u(luint_sub(mk_u(a), mk_u(b))) == a - b, "luint_sub");
  KIT_ASSERT(un_u(luint_add_uint(mk_u(a), w)) == a + w, "luint_add_uint");
  KIT_ASSERT(un_u(luint_and(mk_u(a), mk_u(b))) == (a & b), "luint_and");
#elif OP == OP_SHIFT
  u128 a = any_u128(); size_t sh = nondet_uword();
  __CPROVER_assume(sh < 128);
  KIT_ASSERT(un_u(luint_shl(mk_u(a), sh)) == (a << sh), "luint_shl");
  KIT_ASSERT(un_u(luint_shr(mk_u(a), sh)) == (a >> sh), "luint_shr");
#elif OP == OP_CMP
  u128 a = any_u128(), b = any_u128();
  KIT_ASSERT(!!luint_lt(mk_u(a), mk_u(b)) == (a < b), "luint_lt");
  KIT_ASSERT(!!luint_eq(mk_u(a), mk_u(b)) == (a == b), "luint_eq");
  KIT_ASSERT(!!lsint_lt_0(mk_s((s128)a)) == ((s128)a < 0), "lsint_lt_0");
#elif OP == OP_CONV
  u128 a = any_u128(); s128 s = (s128)a; sexp_sint_t v = nondet_sword(); sexp_uint_t u = nondet_uword();
  KIT_ASSERT(!!sexp_lsint_fits_sint(mk_s(s)) == ((sexp_sint_t)s == s), "lsint_fits_sint");
  KIT_ASSERT(!!sexp_luint_fits_uint(mk_u(a)) == ((sexp_uint_t)a == a), "luint_fits_uint");
  KIT_ASSERT(un_s(lsint_from_sint(v)) == (s128)v, "lsint_from_sint");
  KIT_ASSERT(un_u(luint_from_uint(u)) == (u128)u, "luint_from_uint");
  KIT_ASSERT(lsint_to_sint(mk_s(s)) == (sexp_sint_t)s, "lsint_to_sint");
  KIT_ASSERT(luint_to_uint(mk_u(a)) == (sexp_uint_t)a, "luint_to_uint");
  KIT_ASSERT(lsint_to_sint_hi(mk_s(s)) == (sexp_sint_t)(s >> 64), "lsint_to_sint_hi");
  KIT_ASSERT(luint_to_uint_hi(mk_u(a)) == (sexp_uint_t)(a >> 64), "luint_to_uint_hi");
  KIT_ASSERT(!!luint_is_fixnum(mk_u(a)) == (a <= (u128)SEXP_MAX_FIXNUM), "luint_is_fixnum");
  KIT_ASSERT(!!lsint_is_fixnum(mk_s(s)) == ((s128)SEXP_MIN_FIXNUM <= s && s <= (s128)SEXP_MAX_FIXNUM), "lsint_is_fixnum");
#elif OP == OP_NEG
  u128 a = any_u128(); s128 s = (s128)a;
  KIT_ASSERT(un_s(lsint_negate(mk_s(s))) == (s128)(-(u128)s), "lsint_negate");
#elif OP == OP_MULU || OP == OP_MULS || OP == OP_DIV
  u128 a; sexp_uint_t b;
#if DOM == 1          /* D-const: b from the radix / power-of-two call sites */
  a = any_u128(); b = BCONST;
#elif DOM == 2        /* D-lattice */
  a = ((u128)lattice_word() << 64) | lattice_word(); b = lattice_word();
#else                 /* D-small: both below 2^W */
  a = nondet_uword(); b = nondet_uword();
  __CPROVER_assume(a < ((u128)1 << SMALLW) && b < (1UL << SMALLW));
#endif
#if OP == OP_MULU
  KIT_ASSERT(un_u(luint_mul_uint(mk_u(a), b)) == a * b, "luint_mul_uint");
#elif OP == OP_MULS
  KIT_ASSERT(un_s(lsint_mul_sint(mk_s((s128)a), (sexp_sint_t)b)) == (s128)((u128)(s128)a * (u128)(s128)(sexp_sint_t)b), "lsint_mul_sint");
#else
  __CPROVER_assume(b != 0);
  KIT_ASSERT(un_u(luint_div_uint(mk_u(a), b)) == a / b, "luint_div_uint");
#endif
#endif
  KIT_WITNESS();
}
