/* C10 / C16 / C02(A): the real collector core of gc.c (sexp_sweep, sexp_try_alloc, sexp_mark,
   sexp_reset_weak_references) on a symbolic heap: K slots of 32 bytes after the sentinel, each slot
   nondeterministically a free chunk (coalesced with its free neighbours, as the invariant demands),
   a marked object or an unmarked object.  One step from an ARBITRARY valid heap: an inductive step
   over all allocation/collection histories that lead to such a heap.
   Compiled with gc.c textually included (static functions are the subject). */
#include "gc.c"
#include "kit.h"
#include "kitfull.h"

#ifndef K
#define K 3
#endif
#define SLOT 32
#define FIRST sexp_heap_align(sexp_free_chunk_size)   /* offset of the first block: 32 on LP64 */
#define HSIZE (FIRST + SLOT * K)

/* slot kinds */
#define S_FREE 0
#define S_LIVE 1      /* marked pair */
#define S_DEAD 2      /* unmarked pair */

static struct sexp_heap_t heap_hdr;
#if MODE == 6
/* finalizers: root pair | fileno | input port (3 slots) | spare pair, or with FD_AFTER_PORT the fileno behind the port */
#include "objalloc.h"
struct kit_slot { struct kit_f_hdr h; sexp a, b, c; };
struct kit_fd_slot { struct kit_f_hdr h; KIT_M(fileno) m __attribute__((aligned(8))); };
struct kit_port_slots { struct kit_f_hdr h; KIT_M(port) m __attribute__((aligned(8))); char pad[96 - sexp_sizeof(port)]; };
_Static_assert(sizeof(struct kit_fd_slot) == 32 && sizeof(struct kit_port_slots) == 96 && sexp_heap_align(sexp_sizeof(port)) == 96, "fileno = 1 slot, port = 3 slots");
/* the spare (dead) pair sits in front: a free run then always starts in a pair-shaped slot, and the free-list
   node the sweep writes there never overlays the char fields of the descriptor object (such a type-punned
   store turns the whole heap image into bytes for cbmc and nothing folds afterwards) */
#define IDX_Q 1
#ifdef FD_AFTER_PORT
static struct { struct sexp_free_list_t sentinel; char pad[16]; struct kit_slot r; struct kit_slot q; struct kit_port_slots p; struct kit_fd_slot f; char tail[16]; } heap_img;
#define IDX_P 2
#define IDX_F 5
#else
static struct { struct sexp_free_list_t sentinel; char pad[16]; struct kit_slot r; struct kit_slot q; struct kit_fd_slot f; struct kit_port_slots p; char tail[16]; } heap_img;
#define IDX_F 2
#define IDX_P 3
#endif
#define heap_mem ((sexp_uint_t *)&heap_img)
static int close_calls, close_fd, fclose_calls;
static char port_buf[8];
static long fake_file[4];           /* stands for the FILE object of a stream-backed port */
#include <stdio.h>
#include <unistd.h>
KIT_C_BEGIN
int close(int fd) { close_calls++; close_fd = fd; return 0; }      /* the resource release being counted */
/* the final flush of an output port may fail or be partial: arbitrary results */
ssize_t write(int fd, const void *buf, size_t n) { long r = nondet_sword(); __CPROVER_assume(r >= -1 && r <= (long)n); return r; }
size_t fwrite(const void *p, size_t sz, size_t n, FILE *f) { long r = nondet_sword(); __CPROVER_assume(r >= 0 && r <= (long)n); return r; }
int fflush(FILE *f) { return nondet_bool() ? -1 : 0; }
int fclose(FILE *f) { fclose_calls++; return 0; }
KIT_C_END
#ifndef PORT_KIND
#define PORT_KIND 0     /* 0 input port over a descriptor, 1 output port over a descriptor (pending bytes), 2 output port over a FILE stream */
#endif
#elif MODE >= 3
/* concrete layout (four objects): a typed heap image, so that tags and stored object addresses stay
   symex constants while the real marker walks it */
#include "objalloc.h"
struct kit_slot { struct kit_f_hdr h; sexp a, b, c; };          /* pair: car cdr source; ephemeron: key value */
static struct { struct sexp_free_list_t sentinel; char pad[16]; struct kit_slot s[K]; char tail[16]; } heap_img;
#define heap_mem ((sexp_uint_t *)&heap_img)
_Static_assert(sizeof(struct kit_slot) == 32 && offsetof(struct kit_slot, a) == offsetof(struct sexp_struct, value.pair.car), "slot layout");
#else
static sexp_uint_t heap_mem[(32 + SLOT * K) / 8 + 2];
#endif
_Static_assert(sexp_heap_align(1) == SLOT, "slot = one heap alignment unit");
#define SLOT_ADDR(i) ((char *)heap_mem + FIRST + SLOT * (i))

static unsigned char kind[K];

static void build_heap(sexp ctx) {
  heap_hdr.size = HSIZE; heap_hdr.max_size = 0; heap_hdr.chunk_size = 0; heap_hdr.next = NULL;
  heap_hdr.data = (char *)heap_mem;
  heap_hdr.free_list = (sexp_free_list)heap_mem;
  sexp_context_heap(ctx) = &heap_hdr;
  sexp_free_list prev = heap_hdr.free_list;
  prev->size = 0; prev->next = NULL;
#if MODE == 6
  for (int i = 0; i < K; i++) kind[i] = S_DEAD;
  kind[IDX_F] = kind[IDX_P] = kind[IDX_P + 1] = kind[IDX_P + 2] = 3;   /* descriptor and port: typed slots, initialised by the harness */
#elif MODE >= 3
  for (int i = 0; i < K; i++) kind[i] = S_DEAD;      /* concrete layout: four unmarked objects */
#else
  for (int i = 0; i < K; i++) { kind[i] = nondet_uchar(); __CPROVER_assume(kind[i] <= S_DEAD); }
#endif
  for (int i = 0; i < K; i++) {
    if (kind[i] == S_FREE) {
      if (i > 0 && kind[i-1] == S_FREE) {
        prev->size += SLOT;                       /* coalesced run */
      } else {
        sexp_free_list n = (sexp_free_list)SLOT_ADDR(i);
        n->size = SLOT; n->next = NULL;
        prev->next = n; prev = n;
      }
    } else if (kind[i] == 3) {
      continue;
    } else {
      sexp p = (sexp)SLOT_ADDR(i);
      sexp_pointer_tag(p) = SEXP_PAIR;
      sexp_markedp(p) = (kind[i] == S_LIVE);
      sexp_car(p) = sexp_make_fixnum(10 + i); sexp_cdr(p) = SEXP_NULL; sexp_pair_source(p) = SEXP_FALSE;
    }
  }
}

/* the representation invariant of the free list, and what it must cover */
static void check_heap(sexp ctx, const unsigned char *expect_free /* per slot: 1 = must be free */) {
  sexp_free_list q = heap_hdr.free_list;
  KIT_ASSERT((char *)q == (char *)heap_mem && q->size == 0, "sentinel node intact");
  int i = 0;
  sexp_free_list r = q->next;
  char *last_end = NULL;
  for (int steps = 0; steps <= K; steps++) {
    if (!r) break;
    KIT_ASSERT((char *)r >= SLOT_ADDR(0) && (char *)r < (char *)heap_mem + HSIZE, "free chunk lies inside the heap");
    KIT_ASSERT((((char *)r - SLOT_ADDR(0)) % SLOT) == 0 && r->size >= SLOT && (r->size % SLOT) == 0, "free chunk is slot aligned and a multiple of the slot size");
    KIT_ASSERT((char *)r + r->size <= (char *)heap_mem + HSIZE, "free chunk ends inside the heap");
    if (last_end) KIT_ASSERT((char *)r > last_end, "free list is address ordered and coalesced (no adjacent chunks)");
    last_end = (char *)r + r->size;
    r = r->next;
  }
  KIT_ASSERT(r == NULL, "free list is finite (at most K chunks)");
  /* coverage: slot i is inside some free chunk iff expected */
  for (i = 0; i < K; i++) {
    int covered = 0;
    sexp_free_list c = heap_hdr.free_list->next;
    for (int steps = 0; steps < K; steps++) {
      if (!c) break;
      if (SLOT_ADDR(i) >= (char *)c && SLOT_ADDR(i) < (char *)c + c->size) covered = 1;
      c = c->next;
    }
    KIT_ASSERT(covered == (expect_free[i] != 0), "exactly the expected slots are on the free list");
  }
}

void harness(void) {
  sexp ctx = kit_ctx_full();
  build_heap(ctx);
  unsigned char expect[K];
#if MODE == 1      /* sweep */
  size_t sum = 0;
  sexp mx = sexp_sweep(ctx, &sum);
  size_t dead = 0;
  for (int i = 0; i < K; i++) { expect[i] = (kind[i] != S_LIVE); if (kind[i] == S_DEAD) dead++; }
  check_heap(ctx, expect);
  KIT_ASSERT(sum == dead * SLOT, "sum_freed is the total size of the unmarked objects");
  KIT_ASSERT(sexp_fixnump(mx) && (size_t)sexp_unbox_fixnum(mx) <= (size_t)K * SLOT, "max_freed is a size inside the heap");
  for (int i = 0; i < K; i++) if (kind[i] == S_LIVE) {
    sexp p = (sexp)SLOT_ADDR(i);
    KIT_ASSERT(sexp_pointer_tag(p) == SEXP_PAIR && !sexp_markedp(p) && sexp_car(p) == sexp_make_fixnum(10 + i) && sexp_cdr(p) == SEXP_NULL,
               "a marked object survives the sweep byte for byte, with its mark cleared");
  }
  /* storage is reused: if anything is free afterwards an allocation of one slot succeeds without growing */
  int anyfree = 0; for (int i = 0; i < K; i++) anyfree |= expect[i];
  void *blk = sexp_try_alloc(ctx, SLOT);
  KIT_ASSERT((blk != NULL) == (anyfree != 0), "after the sweep a one-slot allocation succeeds iff some slot is free");
#elif MODE == 2    /* try_alloc from an arbitrary valid heap without unmarked objects */
  for (int i = 0; i < K; i++) __CPROVER_assume(kind[i] != S_DEAD);
  size_t want = WANT;      /* 32 or 64: one query each */
  char *blk = (char *)sexp_try_alloc(ctx, want);
  int maxrun = 0, run = 0;
  for (int i = 0; i < K; i++) { run = (kind[i] == S_FREE) ? run + 1 : 0; if (run > maxrun) maxrun = run; }
  KIT_ASSERT((blk != NULL) == ((size_t)maxrun * SLOT >= want), "try_alloc succeeds iff a free run is large enough");
  for (int i = 0; i < K; i++) expect[i] = (kind[i] == S_FREE);
  if (blk) {
    KIT_ASSERT(blk >= SLOT_ADDR(0) && blk + want <= (char *)heap_mem + HSIZE && ((blk - SLOT_ADDR(0)) % SLOT) == 0, "the block lies inside the heap on a slot boundary");
    for (int i = 0; i < K; i++) if (SLOT_ADDR(i) >= blk && SLOT_ADDR(i) < blk + want) {
      KIT_ASSERT(kind[i] == S_FREE, "the block does not overlap a live object");
      expect[i] = 0;
    }
    for (size_t b = 0; b < want / 8; b++) KIT_ASSERT(((sexp_uint_t *)blk)[b] == 0, "the block is zero filled");
  }
  check_heap(ctx, expect);
  for (int i = 0; i < K; i++) if (kind[i] == S_LIVE) {
    sexp p = (sexp)SLOT_ADDR(i);
    KIT_ASSERT(sexp_pointer_tag(p) == SEXP_PAIR && sexp_markedp(p) && sexp_car(p) == sexp_make_fixnum(10 + i), "live objects are untouched by an allocation");
  }
#elif MODE == 3 || MODE == 4
  /* C16/C02: slot 0 = root pair R, slot 1 = ephemeron E(key = slot 2, value = slot 3), slot 2 = key object,
     slot 3 = value object; all unmarked.  R.car = E; R.cdr = key or #f (free choice): the key is
     strongly reachable iff R.cdr references it.  Run the real mark from R, the real weak pass and
     the real sweep (= sexp_gc without the context walk). */
  sexp R = (sexp)SLOT_ADDR(0), E = (sexp)SLOT_ADDR(1), KEY = (sexp)SLOT_ADDR(2), VAL = (sexp)SLOT_ADDR(3);
  sexp_pointer_tag(E) = SEXP_EPHEMERON;
  sexp_ephemeron_key(E) = KEY; sexp_ephemeron_value(E) = VAL;
  _Bool key_reachable = KEY_REACHABLE;       /* enumerated per query: keeps the object graph concrete for symex */
#if MODE == 4
  _Bool value_refs_key = VALUE_REFS_KEY;     /* the classic ephemeron case: the value refers back to the key */
  if (value_refs_key) sexp_car(VAL) = KEY;
#endif
  sexp_car(R) = E; sexp_cdr(R) = key_reachable ? KEY : SEXP_FALSE;
  sexp_global(ctx, SEXP_G_WEAK_OBJECTS_PRESENT) = SEXP_TRUE;
  sexp_mark(ctx, R);
#ifdef HAVE_EPHEMERON_PASS
  sexp_mark_ephemeron_values(ctx);
#endif
  sexp_reset_weak_references(ctx);
  KIT_ASSERT(sexp_markedp(R) && sexp_markedp(E), "objects reachable from the root are marked");
  if (key_reachable) {
    KIT_ASSERT(sexp_markedp(KEY), "a strongly reachable key is marked");
    KIT_ASSERT(sexp_ephemeron_key(E) == KEY && sexp_ephemeron_value(E) == VAL, "an ephemeron with a live key keeps its key and value");
    KIT_ASSERT(sexp_markedp(VAL), "the value of an ephemeron with a live key is retained");
  } else {
    /* (the `brokenp` header bit itself is not asserted: cbmc 6.11 models a bit-field store through a pointer into
       the middle of an aggregate inconsistently with the member read; the native replay disagreed, R14) */
    KIT_ASSERT(sexp_ephemeron_key(E) == SEXP_FALSE && sexp_ephemeron_value(E) == SEXP_FALSE, "an ephemeron whose key is unreachable is cleared (key and value slots)");
    KIT_ASSERT(!sexp_markedp(KEY) && !sexp_markedp(VAL), "an unreachable key, and a value reachable only through its ephemeron, are not retained");
  }
  size_t sum = 0;
  sexp_sweep(ctx, &sum);
  for (int i = 0; i < K; i++) expect[i] = 0;
  if (!key_reachable) { expect[2] = 1; expect[3] = 1; }
  check_heap(ctx, expect);
  if (key_reachable) KIT_ASSERT(sexp_pointer_tag(VAL) == SEXP_PAIR && sexp_cdr(VAL) == SEXP_NULL, "the retained value is intact after the sweep");
#elif MODE == 6
  /* C16 finalizers: slot 0 root pair R; a file-descriptor object F (1 slot); an input port P over F (3 slots);
     a spare pair Q.  R.car = P or #f, R.cdr = F or #f (per-query constants); F's open/no-close flags, the
     port's open/no-close flags and the share count (1 or 2) are free.  Real mark from R, real sexp_finalize,
     real sweep; close() is counted. */
  sexp R = (sexp)SLOT_ADDR(0), F = (sexp)SLOT_ADDR(IDX_F), P = (sexp)SLOT_ADDR(IDX_P), Q = (sexp)SLOT_ADDR(IDX_Q);
  sexp_pointer_tag(F) = SEXP_FILENO; sexp_pointer_tag(P) = PORT_KIND ? SEXP_OPORT : SEXP_IPORT;
  _Bool f_open = nondet_bool(), f_noclose = nondet_bool(), p_open = nondet_bool(), p_noclose = nondet_bool();
  sexp_sint_t count0 = nondet_bool() ? 2 : 1;
  sexp_fileno_fd(F) = 7; sexp_fileno_openp(F) = f_open; sexp_fileno_no_closep(F) = f_noclose; sexp_fileno_count(F) = count0;
  sexp_port_name(P) = R; sexp_port_cookie(P) = R; sexp_port_fd(P) = F;   /* live objects rather than #f: see the note on R below */ sexp_port_stream(P) = NULL; sexp_port_buf(P) = NULL;
  sexp_port_openp(P) = p_open; sexp_port_no_closep(P) = p_noclose; sexp_port_shutdownp(P) = 0; sexp_port_bidirp(P) = 0; sexp_port_binaryp(P) = 0;
  sexp_port_offset(P) = 3; sexp_port_size(P) = 9;
#if PORT_KIND >= 1
  sexp_port_buf(P) = port_buf; sexp_port_size(P) = 8;
  { sexp_uint_t pending = nondet_uword(); __CPROVER_assume(pending <= 4); sexp_port_offset(P) = pending; }
#endif
#if PORT_KIND == 2
  sexp_port_stream(P) = (FILE *) fake_file;
#endif
  _Bool port_reachable = PORT_REACHABLE, fd_reachable = FD_REACHABLE || PORT_REACHABLE;
  /* "no reference" is a self reference of the root, not #f: the marker compares adjacent slots, and an
     address compared with an immediate constant does not fold in symex (R12) */
  sexp_car(R) = PORT_REACHABLE ? P : R; sexp_cdr(R) = FD_REACHABLE ? F : R;
  sexp_mark(ctx, R);
  KIT_ASSERT(sexp_markedp(R) && !sexp_markedp(Q), "the root is marked, the unreferenced pair is not");
  KIT_ASSERT(!!sexp_markedp(P) == port_reachable && !!sexp_markedp(F) == fd_reachable, "port and descriptor are marked iff reachable (a port keeps its descriptor alive)");
  sexp fr = sexp_finalize(ctx);
  KIT_ASSERT(sexp_fixnump(fr), "the finalizer pass completes");
  KIT_ASSERT(close_calls <= 1, "a descriptor is closed at most once in one collection");
  if (close_calls) KIT_ASSERT(close_fd == 7, "only the descriptor of the finalized object is closed");
  if (port_reachable) {
    KIT_ASSERT(close_calls == 0, "nothing is closed while the owning port is reachable");
    KIT_ASSERT(!!sexp_port_openp(P) == p_open && !!sexp_fileno_openp(F) == f_open && sexp_fileno_count(F) == count0 && sexp_port_size(P) == (PORT_KIND ? 8 : 9), "reachable port and descriptor are untouched");
    KIT_ASSERT(fclose_calls == 0, "the stream of a reachable port is not closed");
  } else {
    KIT_ASSERT(!sexp_port_openp(P), "an unreachable port is closed");
  }
  if (!fd_reachable && f_open && !f_noclose) {
    KIT_ASSERT(close_calls == 1 && !sexp_fileno_openp(F), "the descriptor of an unreachable open file-descriptor object is released exactly once");
  }
  if (fd_reachable && !port_reachable && count0 == 2 && p_open && f_open && !p_noclose) {
    KIT_ASSERT(close_calls == 0 && sexp_fileno_count(F) == 1 && sexp_fileno_openp(F), "a descriptor shared with another port stays open when one of its ports is collected");
  }
  if (!port_reachable && p_open && !p_noclose && f_open && !f_noclose && count0 == 1)
    KIT_ASSERT(close_calls == 1 && !sexp_fileno_openp(F), "dropping the only port over an open descriptor releases it (whether or not the final flush succeeds)");
#if PORT_KIND == 2
  if (!port_reachable && p_open && !p_noclose) KIT_ASSERT(fclose_calls == 1, "the stream of a dropped open port is closed exactly once (whether or not the final flush succeeds)");
  if (port_reachable || !p_open || p_noclose) KIT_ASSERT(fclose_calls == 0, "no stream is closed otherwise");
#endif
  if (!f_open || f_noclose) KIT_ASSERT(close_calls == 0, "a descriptor that is already closed, or marked no-close, is never closed");
  size_t sum = 0;
  sexp_sweep(ctx, &sum);
  for (int i = 0; i < K; i++) expect[i] = 0;
  expect[IDX_Q] = 1;
  if (!port_reachable) { expect[IDX_P] = 1; expect[IDX_P + 1] = 1; expect[IDX_P + 2] = 1; }
  if (!fd_reachable) expect[IDX_F] = 1;
  check_heap(ctx, expect);
  /* a second finalizer pass (next collection) must not release anything again */
  int before = close_calls;
  sexp_mark(ctx, R);
  sexp_finalize(ctx);
  KIT_ASSERT(close_calls == before, "a later collection does not release the same descriptor again");
  KIT_ASSERT(fclose_calls <= 1, "nor the stream");
#elif MODE == 5
  /* chain: R -> E2, E1, KEY1;  E1 = (KEY1 => KEY2),  E2 = (KEY2 => VAL2), with E2 placed BEFORE E1 in the heap so
     that the value pass needs a second round: KEY2 is alive only as E1's value, VAL2 only as E2's value */
  sexp R = (sexp)SLOT_ADDR(0), E2 = (sexp)SLOT_ADDR(1), E1 = (sexp)SLOT_ADDR(2), KEY1 = (sexp)SLOT_ADDR(3), KEY2 = (sexp)SLOT_ADDR(4), VAL2 = (sexp)SLOT_ADDR(5);
  sexp_pointer_tag(E1) = SEXP_EPHEMERON; sexp_pointer_tag(E2) = SEXP_EPHEMERON;
  sexp_ephemeron_key(E1) = KEY1; sexp_ephemeron_value(E1) = KEY2;
  sexp_ephemeron_key(E2) = KEY2; sexp_ephemeron_value(E2) = VAL2;
  _Bool key_reachable = KEY_REACHABLE;
  sexp_car(R) = E2; sexp_cdr(R) = E1; sexp_pair_source(R) = key_reachable ? KEY1 : SEXP_FALSE;
  sexp_global(ctx, SEXP_G_WEAK_OBJECTS_PRESENT) = SEXP_TRUE;
  sexp_mark(ctx, R);
#ifdef HAVE_EPHEMERON_PASS
  sexp_mark_ephemeron_values(ctx);
#endif
  sexp_reset_weak_references(ctx);
  if (key_reachable) {
    KIT_ASSERT(sexp_markedp(KEY1) && sexp_markedp(KEY2) && sexp_markedp(VAL2), "values reachable through a chain of ephemerons with live keys are retained");
    KIT_ASSERT(sexp_ephemeron_key(E2) == KEY2 && sexp_ephemeron_value(E2) == VAL2 && sexp_ephemeron_value(E1) == KEY2, "no ephemeron of the chain is cleared");
  } else {
    KIT_ASSERT(!sexp_markedp(KEY1) && !sexp_markedp(KEY2) && !sexp_markedp(VAL2), "nothing of the chain is retained once the first key is unreachable");
    KIT_ASSERT(sexp_ephemeron_key(E1) == SEXP_FALSE && sexp_ephemeron_value(E1) == SEXP_FALSE && sexp_ephemeron_key(E2) == SEXP_FALSE && sexp_ephemeron_value(E2) == SEXP_FALSE, "both ephemerons are cleared");
  }
  size_t sum = 0;
  sexp_sweep(ctx, &sum);
  for (int i = 0; i < K; i++) expect[i] = 0;
  if (!key_reachable) { expect[3] = 1; expect[4] = 1; expect[5] = 1; }
  check_heap(ctx, expect);
#endif
  KIT_WITNESS();
}
