/* C11 (C primitives): SRFI-18 mutex / condition-variable / thread-queue primitives of
   lib/srfi/18/threads.c.  Pre-emption happens only between VM instructions and every primitive is
   one foreign call, so a schedule is a word over {primitive, scheduler step}; each primitive is
   checked here from an arbitrary small scheduler state: current thread T0, threads T1 and T2 paused
   (each waiting on the mutex M or on the condition variable C: free choice), run queue empty or (T3). */
#include "kit.h"
#include "kitfull.h"
KIT_C_BEGIN
sexp sexp_mutex_lock (sexp ctx, sexp self, sexp_sint_t n, sexp mutex, sexp timeout, sexp thread);
sexp sexp_mutex_unlock (sexp ctx, sexp self, sexp_sint_t n, sexp mutex, sexp condvar, sexp timeout);
sexp sexp_condition_variable_signal (sexp ctx, sexp self, sexp_sint_t n, sexp condvar);
sexp sexp_condition_variable_broadcast (sexp ctx, sexp self, sexp_sint_t n, sexp condvar);
sexp sexp_thread_start (sexp ctx, sexp self, sexp_sint_t n, sexp thread);
sexp sexp_scheduler (sexp ctx, sexp self, sexp_sint_t n, sexp root_thread);
#if OP == 6
#include <sys/time.h>
/* the clock is an arbitrary instant (one reading per scheduler step is all the step uses for wake-ups) */
static struct timeval now_tv; static int now_set;
int gettimeofday(struct timeval *tv, void *tz) {
  if (!now_set) { now_set = 1; now_tv.tv_sec = nondet_sword(); now_tv.tv_usec = nondet_sword();
    __CPROVER_assume(now_tv.tv_sec > 0 && now_tv.tv_sec < (1L << 40) && now_tv.tv_usec >= 0 && now_tv.tv_usec < 1000000); }
  if (tv) *tv = now_tv;
  return 0;
}
int usleep(unsigned usec) { return 0; }
#endif
KIT_C_END

#define mutex_lockp(x)  sexp_slot_ref(x, 3)
#define mutex_thread(x) sexp_slot_ref(x, 2)

static sexp mk_thread(sexp ctx) {
  sexp t = kit_alloc_tagged(sexp_sizeof(context), SEXP_CONTEXT);
  sexp_context_globals(t) = sexp_context_globals(ctx);
  sexp_context_refuel(t) = 100;
  sexp_context_event(t) = SEXP_FALSE;
  return t;
}
static int list_len(sexp ls) { int n = 0; for (int k = 0; k < 6; k++) { if (!sexp_pairp(ls)) break; n++; ls = sexp_cdr(ls); } return n; }
static int memq(sexp ls, sexp x) { for (int k = 0; k < 6; k++) { if (!sexp_pairp(ls)) break; if (sexp_car(ls) == x) return 1; ls = sexp_cdr(ls); } return 0; }
static int count(sexp ls, sexp x) { int n = 0; for (int k = 0; k < 6; k++) { if (!sexp_pairp(ls)) break; if (sexp_car(ls) == x) n++; ls = sexp_cdr(ls); } return n; }
static sexp last_pair(sexp ls) { sexp l = ls; for (int k = 0; k < 6; k++) { if (!sexp_pairp(l) || !sexp_pairp(sexp_cdr(l))) break; l = sexp_cdr(l); } return l; }

void harness(void) {
  sexp ctx = kit_ctx_full();
  sexp_context_refuel(ctx) = 100;
  sexp T1 = mk_thread(ctx), T2 = mk_thread(ctx), T3 = mk_thread(ctx);
  sexp M = kit_alloc_tagged(sexp_sizeof_header + 4 * sizeof(sexp), SEXP_NUM_CORE_TYPES + 1);
  sexp C = kit_alloc_tagged(sexp_sizeof_header + 3 * sizeof(sexp), SEXP_NUM_CORE_TYPES + 2);
  sexp owner = T3;
  _Bool locked = nondet_bool(), t1_on_m = nondet_bool(), t2_on_m = nondet_bool(), queue_nonempty = nondet_bool();
  mutex_lockp(M) = locked ? SEXP_TRUE : SEXP_FALSE;
  mutex_thread(M) = locked ? owner : SEXP_FALSE;
  sexp_context_waitp(T1) = 1; sexp_context_event(T1) = t1_on_m ? M : C;
  sexp_context_waitp(T2) = 1; sexp_context_event(T2) = t2_on_m ? M : C;
#if NPAUSED == 0
  sexp paused = SEXP_NULL;
#elif NPAUSED == 1
  sexp paused = kit_pair(T1, SEXP_NULL);
#else
  sexp paused = kit_pair(T1, kit_pair(T2, SEXP_NULL));
#endif
  sexp_global(ctx, SEXP_G_THREADS_PAUSED) = paused;
  sexp qcell = kit_pair(T3, SEXP_NULL);
  sexp_global(ctx, SEXP_G_THREADS_FRONT) = queue_nonempty ? qcell : SEXP_NULL;
  sexp_global(ctx, SEXP_G_THREADS_BACK) = queue_nonempty ? qcell : SEXP_NULL;
  int t1w = NPAUSED >= 1, t2w = NPAUSED >= 2;          /* which threads are really paused */
  int m_waiters = (t1w && t1_on_m) + (t2w && t2_on_m), c_waiters = (t1w && !t1_on_m) + (t2w && !t2_on_m);
  sexp first_m = (t1w && t1_on_m) ? T1 : (t2w && t2_on_m) ? T2 : SEXP_FALSE;
  sexp first_c = (t1w && !t1_on_m) ? T1 : (t2w && !t2_on_m) ? T2 : SEXP_FALSE;

#if OP == 1    /* mutex-lock! by the current thread, no timeout */
  sexp r = sexp_mutex_lock(ctx, SEXP_FALSE, 3, M, SEXP_FALSE, SEXP_TRUE);
  if (!locked) {
    KIT_ASSERT(r == SEXP_TRUE && mutex_lockp(M) == SEXP_TRUE && mutex_thread(M) == ctx, "locking a free mutex succeeds and records the owner");
    KIT_ASSERT(!sexp_context_waitp(ctx) && sexp_global(ctx, SEXP_G_THREADS_PAUSED) == paused, "a successful lock does not block the caller");
  } else {
    KIT_ASSERT(r == SEXP_FALSE && mutex_lockp(M) == SEXP_TRUE && mutex_thread(M) == owner, "a held mutex stays with its holder: at most one holder");
    KIT_ASSERT(sexp_context_waitp(ctx) && sexp_context_event(ctx) == M, "the caller waits on the mutex");
    sexp p = sexp_global(ctx, SEXP_G_THREADS_PAUSED);
    KIT_ASSERT(list_len(p) == NPAUSED + 1 && memq(p, ctx) && (!t1w || memq(p, T1)) && (!t2w || memq(p, T2)), "the caller is added to the paused list exactly once, nobody is dropped");
  }
#elif OP == 2  /* mutex-unlock! without condition variable */
  sexp r = sexp_mutex_unlock(ctx, SEXP_FALSE, 3, M, SEXP_FALSE, SEXP_FALSE);
  KIT_ASSERT(r == SEXP_TRUE && mutex_lockp(M) == SEXP_FALSE, "unlock releases the mutex");
  sexp p = sexp_global(ctx, SEXP_G_THREADS_PAUSED), f = sexp_global(ctx, SEXP_G_THREADS_FRONT), b = sexp_global(ctx, SEXP_G_THREADS_BACK);
  if (locked && m_waiters > 0) {
    KIT_ASSERT(sexp_pairp(f) && sexp_car(f) == first_m && !sexp_context_waitp(first_m) && !sexp_context_timeoutp(first_m), "exactly the first thread waiting on the mutex is made runnable (no lost wake-up)");
    KIT_ASSERT(list_len(p) == NPAUSED - 1 && !memq(p, first_m), "it leaves the paused list; the others stay paused");
    KIT_ASSERT(list_len(f) == 1 + (queue_nonempty ? 1 : 0) && b == last_pair(f) && (!queue_nonempty || memq(f, T3)), "the run queue keeps its other members and BACK is its last cell");
  } else {
    KIT_ASSERT(p == paused && list_len(p) == NPAUSED && list_len(f) == (queue_nonempty ? 1 : 0), "with no waiter (or an unlocked mutex) the queues are unchanged");
  }
  if (t1w && T1 != first_m) KIT_ASSERT(sexp_context_waitp(T1) && memq(p, T1), "threads not woken keep waiting");
  if (t2w && (T2 != first_m || !(locked && m_waiters > 0))) KIT_ASSERT(sexp_context_waitp(T2) && memq(p, T2), "threads not woken keep waiting");
#elif OP == 3  /* condition-variable-signal! / broadcast! */
#ifdef BROADCAST
  sexp r = sexp_condition_variable_broadcast(ctx, SEXP_FALSE, 1, C);
#else
  sexp r = sexp_condition_variable_signal(ctx, SEXP_FALSE, 1, C);
#endif
  sexp p = sexp_global(ctx, SEXP_G_THREADS_PAUSED), f = sexp_global(ctx, SEXP_G_THREADS_FRONT), b = sexp_global(ctx, SEXP_G_THREADS_BACK);
  KIT_ASSERT((r == SEXP_TRUE) == (c_waiters > 0), "signal reports whether a thread was waiting");
#ifdef BROADCAST
  int woken = c_waiters;
#else
  int woken = c_waiters > 0 ? 1 : 0;
#endif
  KIT_ASSERT(list_len(p) == NPAUSED - woken && list_len(f) == woken + (queue_nonempty ? 1 : 0), "exactly the signalled waiters move from the paused list to the run queue");
  if (woken) KIT_ASSERT(memq(f, first_c) && !sexp_context_waitp(first_c) && !memq(p, first_c), "the first waiter is runnable");
  KIT_ASSERT(list_len(f) == 0 || b == last_pair(f), "BACK is the last cell of the run queue");
  if (t1w && t1_on_m) KIT_ASSERT(sexp_context_waitp(T1) && memq(p, T1), "threads waiting on something else are untouched");
  if (t2w && t2_on_m) KIT_ASSERT(sexp_context_waitp(T2) && memq(p, T2), "threads waiting on something else are untouched");
  KIT_ASSERT(mutex_lockp(M) == (locked ? SEXP_TRUE : SEXP_FALSE), "the mutex is not affected by a signal");
#elif OP == 4  /* mutex-unlock! with a condition variable: unlock and wait, atomically */
  sexp r = sexp_mutex_unlock(ctx, SEXP_FALSE, 3, M, C, SEXP_FALSE);
  sexp p = sexp_global(ctx, SEXP_G_THREADS_PAUSED);
  KIT_ASSERT(r == SEXP_FALSE && mutex_lockp(M) == SEXP_FALSE, "the mutex is released");
  KIT_ASSERT(sexp_context_waitp(ctx) && sexp_context_event(ctx) == C && memq(p, ctx), "the caller is waiting on the condition variable when the primitive returns");
  KIT_ASSERT(list_len(p) == NPAUSED + 1 - ((locked && m_waiters > 0) ? 1 : 0), "one waiter of the mutex (if any) was woken, the caller was added");
#elif OP == 6  /* one scheduler step */
  /* re-shape the state: T1/T2 paused, each either joining the current thread or waiting on M; each with a
     free wake-up time (0 = none), ordered as sexp_insert_timed keeps them; the current thread is running
     (not waiting) and has terminated (refuel <= 0) or not, per query */
  _Bool t1_joins = nondet_bool(), t2_joins = nondet_bool();
  sexp_context_event(T1) = t1_joins ? ctx : M; sexp_context_event(T2) = t2_joins ? ctx : M;
  long s1 = nondet_sword(), u1 = nondet_sword(), s2 = nondet_sword(), u2 = nondet_sword();
  __CPROVER_assume(s1 >= 0 && s1 < (1L << 40) && u1 >= 0 && u1 < 1000000 && s2 >= 0 && s2 < (1L << 40) && u2 >= 0 && u2 < 1000000);
  __CPROVER_assume(s1 != 0 || u1 == 0);  __CPROVER_assume(s2 != 0 || u2 == 0);       /* a wake-up time has non-zero seconds */
#if NPAUSED == 2
  __CPROVER_assume(s1 != 0 || s2 == 0);                                                /* timed waiters come first ... */
  __CPROVER_assume(s2 == 0 || s1 < s2 || (s1 == s2 && u1 <= u2));                     /* ... in time order */
#endif
  sexp_context_timeval(T1).tv_sec = s1; sexp_context_timeval(T1).tv_usec = u1;
  sexp_context_timeval(T2).tv_sec = s2; sexp_context_timeval(T2).tv_usec = u2;
  sexp_context_refuel(ctx) = TERMINATED ? 0 : 100;
  sexp_context_waitp(ctx) = 0;
  sexp_global(ctx, SEXP_G_THREADS_SIGNALS) = SEXP_ZERO;
  sexp_global(ctx, SEXP_G_THREADS_POLL_FDS) = SEXP_FALSE;
  sexp_global(ctx, SEXP_G_THREADS_POLLFDS_ID) = sexp_make_fixnum(SEXP_NUM_CORE_TYPES + 5);
  sexp res = sexp_scheduler(ctx, SEXP_FALSE, 1, SEXP_FALSE);
  sexp p = sexp_global(ctx, SEXP_G_THREADS_PAUSED), f = sexp_global(ctx, SEXP_G_THREADS_FRONT), b = sexp_global(ctx, SEXP_G_THREADS_BACK);
  KIT_ASSERT(sexp_contextp(res), "the scheduler returns a thread");
  KIT_ASSERT(!sexp_context_waitp(res), "the thread chosen to run is not blocked");
  KIT_ASSERT(list_len(f) == 0 ? !sexp_pairp(b) : b == last_pair(f), "BACK is the last cell of the run queue (or both are empty)");
  KIT_ASSERT(list_len(p) <= NPAUSED && list_len(f) <= NPAUSED + 2, "the queues stay finite");
  /* nobody is lost or duplicated */
  sexp th[3] = {T1, T2, T3}; int was[3] = {t1w, t2w, queue_nonempty};
  for (int i = 0; i < 3; i++) {
    int places = count(p, th[i]) + count(f, th[i]) + (res == th[i]);
    KIT_ASSERT(places == (was[i] ? 1 : 0), "every thread is afterwards in exactly one place: paused list, run queue, or running");
  }
  if (TERMINATED) KIT_ASSERT(!memq(f, ctx) && !memq(p, ctx), "a terminated thread is not queued again");
  else KIT_ASSERT(res == ctx ? (!memq(f, ctx) && !memq(p, ctx)) : (count(f, ctx) == 1 && sexp_car(b) == ctx && !memq(p, ctx)),
                  "a pre-empted thread goes to the back of the run queue exactly once (round robin)");
  /* wake-ups that are due happen in this step */
  int woke1 = 0, woke2 = 0;
  if (t1w) { woke1 = (TERMINATED && t1_joins) || (s1 != 0 && (s1 < now_tv.tv_sec || (s1 == now_tv.tv_sec && u1 < now_tv.tv_usec))); }
  if (t2w) { woke2 = (TERMINATED && t2_joins) || (s2 != 0 && (s2 < now_tv.tv_sec || (s2 == now_tv.tv_sec && u2 < now_tv.tv_usec))); }
  if (t1w && woke1) KIT_ASSERT(!memq(p, T1) && !sexp_context_waitp(T1), "a thread whose join target has terminated / whose timeout has passed is made runnable (no lost wake-up)");
  if (t2w && woke2) KIT_ASSERT(!memq(p, T2) && !sexp_context_waitp(T2), "a thread whose join target has terminated / whose timeout has passed is made runnable (no lost wake-up)");
  /* the next thread is the oldest runnable one */
  if (queue_nonempty) KIT_ASSERT(res == T3, "the thread at the front of the run queue runs next");
  else if ((t1w && woke1) || (t2w && woke2))      /* (joiners are queued before timed-out threads: the order among them is not prescribed) */
    KIT_ASSERT((res == T1 && t1w && woke1) || (res == T2 && t2w && woke2), "with an empty run queue a thread woken in this step runs next");
  else KIT_ASSERT(res == ctx, "with nothing else runnable the current thread continues");
#elif OP == 5  /* thread-start! */
  sexp T4 = mk_thread(ctx);
  sexp r = sexp_thread_start(ctx, SEXP_FALSE, 1, T4);
  sexp f = sexp_global(ctx, SEXP_G_THREADS_FRONT), b = sexp_global(ctx, SEXP_G_THREADS_BACK);
  KIT_ASSERT(r == T4 && sexp_pairp(b) && sexp_car(b) == T4 && b == last_pair(f) && list_len(f) == 1 + (queue_nonempty ? 1 : 0), "a started thread is appended at the back of the run queue");
  KIT_ASSERT(!queue_nonempty || sexp_car(f) == T3, "the front of the queue is unchanged (rotation order)");
#endif
  KIT_WITNESS();
}
