/* C12: the C string kernel (sexp.c / eval.c) against an RFC 3629 decoder written from the
   standard.  The pre-state is an arbitrary well-formed UTF-8 window of <= NCH scalar values
   (free widths: all 1/2/3/4-byte mixes) at a free offset inside a free byte store. */
#include "kit.h"
#include "kitfull.h"
KIT_C_BEGIN
sexp sexp_string_utf8_index_ref (sexp ctx, sexp self, sexp_sint_t n, sexp str, sexp i);
sexp sexp_string_utf8_index_set (sexp ctx, sexp self, sexp_sint_t n, sexp str, sexp i, sexp ch);
KIT_C_END

#ifndef STORE
#define STORE 8
#endif
#ifndef NCH
#define NCH 2
#endif
#ifndef MAXW
#define MAXW 4          /* widest character admitted in the pre-state (restricting it shrinks the size case split) */
#endif
#define MAXB (MAXW*NCH)

/* RFC 3629 decoder: returns the width (1..4) of the well-formed sequence at p (avail bytes), 0 if ill-formed */
static int rfc_dec(const unsigned char *p, int avail, unsigned *cp) {
  if (avail < 1) return 0;
  unsigned b0 = p[0];
  if (b0 < 0x80) { *cp = b0; return 1; }
  if (b0 < 0xC2) return 0;
  if (b0 < 0xE0) { if (avail < 2 || (p[1] & 0xC0) != 0x80) return 0; *cp = ((b0 & 0x1F) << 6) | (p[1] & 0x3F); return 2; }
  if (b0 < 0xF0) {
    if (avail < 3 || (p[1] & 0xC0) != 0x80 || (p[2] & 0xC0) != 0x80) return 0;
    unsigned c = ((b0 & 0x0F) << 12) | ((p[1] & 0x3F) << 6) | (p[2] & 0x3F);
    if (c < 0x800 || (c >= 0xD800 && c <= 0xDFFF)) return 0;
    *cp = c; return 3; }
  if (b0 < 0xF5) {
    if (avail < 4 || (p[1] & 0xC0) != 0x80 || (p[2] & 0xC0) != 0x80 || (p[3] & 0xC0) != 0x80) return 0;
    unsigned c = ((b0 & 0x07) << 18) | ((p[1] & 0x3F) << 12) | ((p[2] & 0x3F) << 6) | (p[3] & 0x3F);
    if (c < 0x10000 || c > 0x10FFFF) return 0;
    *cp = c; return 4; }
  return 0;
}
/* decode a whole window; returns the number of scalar values or -1 if ill-formed / more than NCH+1 */
static int rfc_dec_all(const unsigned char *p, int size, unsigned *cps, int max) {
  int pos = 0, n = 0;
  for (int k = 0; k < max; k++) {
    if (pos >= size) break;
    int w = rfc_dec(p + pos, size - pos, &cps[n]);
    if (w == 0) return -1;
    pos += w; n++;
  }
  return pos == size ? n : -1;
}
/* copy the first `max` bytes of a result string out through constant indices (the result lives in one
   of several candidate objects: a constant index keeps each read a small multiplexer), then decode */
static int dec_result(sexp r, unsigned *cps, int maxch, int maxb) {
  unsigned char buf[4 * (2 * NCH) + 2];
  sexp_uint_t size = sexp_string_size(r);
  for (int k = 0; k < maxb; k++) buf[k] = ((sexp_uint_t)k < size) ? (unsigned char)sexp_string_data(r)[k] : 0;
  if (size > (sexp_uint_t)maxb) return -1;
  return rfc_dec_all(buf, (int)size, cps, maxch);
}
static int is_scalar(unsigned c) { return c <= 0x10FFFF && !(c >= 0xD800 && c <= 0xDFFF); }

static sexp any_string(unsigned *cps, int *nch) {
  sexp store = kit_any_bytes(STORE);
  sexp_uint_t off = nondet_uword(), size = nondet_uword();
  __CPROVER_assume(size <= MAXB && size <= STORE && off <= STORE - size);
#ifdef OFFSET0
  __CPROVER_assume(off == 0);
#endif
  int n = rfc_dec_all((unsigned char *)sexp_bytes_data(store) + off, (int)size, cps, NCH + 1);
  __CPROVER_assume(n >= 0 && n <= NCH);
  *nch = n;
  return kit_string_over(store, off, size);
}

#define OP_CODEC 1
#define OP_REF 2
#define OP_SET 3
#define OP_CURSOR 4
#define OP_SUBSTR 5
#define OP_CONCAT 6

void harness(void) {
  sexp ctx = kit_ctx_full();
#if OP == OP_CODEC
  /* encode then decode every scalar value (21 free bits) */
  unsigned c = (unsigned) nondet_uword();
  __CPROVER_assume(is_scalar(c));
  int len = sexp_utf8_char_byte_count(c);
  sexp b = kit_bytes(4);
  sexp_utf8_encode_char((unsigned char *)sexp_bytes_data(b), len, c);
  unsigned back = 0;
  KIT_ASSERT(rfc_dec((unsigned char *)sexp_bytes_data(b), len, &back) == len && back == c, "encode produces the RFC 3629 encoding of c");
  KIT_ASSERT(sexp_utf8_initial_byte_count(((unsigned char *)sexp_bytes_data(b))[0]) == len, "initial byte announces the encoded length");
  sexp s = kit_string_over(b, 0, len);
  sexp r = sexp_string_utf8_ref(ctx, s, sexp_make_string_cursor(0));
  KIT_ASSERT(sexp_charp(r) && (unsigned)sexp_unbox_character(r) == c, "decode(encode(c)) == c");
#else
  unsigned cps[NCH + 2]; int n;
  sexp s = any_string(cps, &n);
  sexp_uint_t size0 = sexp_string_size(s);
#if OP == OP_REF
  sexp_sint_t i = nondet_sword();
  __CPROVER_assume(i >= -2 && i <= NCH + 2);
  sexp r = sexp_string_utf8_index_ref(ctx, SEXP_FALSE, 2, s, sexp_make_fixnum(i));
  if (i >= 0 && i < n) KIT_ASSERT(sexp_charp(r) && (unsigned)sexp_unbox_character(r) == cps[i], "string-ref returns the i-th scalar value");
  else KIT_ASSERT(sexp_exceptionp(r), "string-ref outside [0,length) is an error");
#elif OP == OP_SET
  sexp other = kit_string_over(sexp_string_bytes(s), sexp_string_offset(s), size0);   /* shares the store */
  sexp_sint_t i = nondet_sword();
  __CPROVER_assume(i >= -1 && i <= NCH + 1);
  unsigned c = (unsigned) nondet_uword();
  __CPROVER_assume(is_scalar(c));
#if MAXW < 4
  __CPROVER_assume(sexp_utf8_char_byte_count(c) <= MAXW);
#endif
  sexp r = sexp_string_utf8_index_set(ctx, SEXP_FALSE, 3, s, sexp_make_fixnum(i), sexp_make_character(c));
  if (i >= 0 && i < n) {
    KIT_ASSERT(r == SEXP_VOID, "string-set! in range succeeds");
    unsigned now[NCH + 2];
    int m = dec_result(s, now, NCH + 1, MAXB + 4);
    KIT_ASSERT(m == n, "string-set! keeps the length and leaves well-formed UTF-8");
    for (int k = 0; k < NCH; k++) if (k < n) KIT_ASSERT(now[k] == (k == i ? c : cps[k]), "string-set! replaces exactly element i");
    KIT_ASSERT(sexp_string_data(s)[sexp_string_size(s)] == 0 || sexp_string_bytes(s) == sexp_string_bytes(other), "a re-allocated store is NUL terminated");
    if (sexp_string_bytes(s) != sexp_string_bytes(other)) {
      /* width changed: the string moved to a fresh store, strings sharing the old store are untouched */
      unsigned old[NCH + 2];
      int mo = dec_result(other, old, NCH + 1, MAXB);
      KIT_ASSERT(mo == n, "a string sharing the old store keeps its length");
      for (int k = 0; k < NCH; k++) if (k < n) KIT_ASSERT(old[k] == cps[k], "a string sharing the old store is unchanged");
    }
  } else KIT_ASSERT(sexp_exceptionp(r), "string-set! outside [0,length) is an error");
#elif OP == OP_CURSOR
  sexp_sint_t i = nondet_sword();
  __CPROVER_assume(i >= -1 && i <= NCH + 1);
  sexp cur = sexp_string_index_to_cursor(ctx, SEXP_FALSE, 2, s, sexp_make_fixnum(i));
  if (i >= 0 && i <= n) {
    KIT_ASSERT(sexp_string_cursorp(cur), "index->cursor inside [0,length] yields a cursor");
    sexp_sint_t off = sexp_unbox_string_cursor(cur);
    KIT_ASSERT(off >= 0 && off <= (sexp_sint_t)size0, "cursor lies inside the string");
    sexp back = sexp_string_cursor_to_index(ctx, SEXP_FALSE, 2, s, cur);
    KIT_ASSERT(sexp_fixnump(back) && sexp_unbox_fixnum(back) == i, "cursor->index inverts index->cursor");
  } else KIT_ASSERT(sexp_exceptionp(cur), "index->cursor outside [0,length] is an error");
  /* cursors from anywhere (e.g. another string) must not be accepted outside [0,size] */
  sexp_sint_t raw = nondet_sword();
  __CPROVER_assume(raw >= -4 && raw <= 4 * STORE);
  sexp ix = sexp_string_cursor_to_index(ctx, SEXP_FALSE, 2, s, sexp_make_string_cursor(raw));
  if (raw < 0 || raw > (sexp_sint_t)size0) KIT_ASSERT(sexp_exceptionp(ix), "cursor->index rejects offsets outside the string");
#elif OP == OP_SUBSTR
  sexp_sint_t a = nondet_sword(), b = nondet_sword();
  __CPROVER_assume(a >= -1 && a <= NCH + 1 && b >= -1 && b <= NCH + 1);
  sexp r = sexp_utf8_substring_op(ctx, SEXP_FALSE, 3, s, sexp_make_fixnum(a), sexp_make_fixnum(b));
  if (a >= 0 && a <= b && b <= n) {
    KIT_ASSERT(sexp_stringp(r), "substring in range returns a string");
    unsigned sub[NCH + 2];
    int m = dec_result(r, sub, NCH + 1, MAXB);
    KIT_ASSERT(m == b - a, "substring has end-start scalar values");
    for (int k = 0; k < NCH; k++) if (k < b - a) KIT_ASSERT(sub[k] == cps[a + k], "substring is the slice of the sequence");
    KIT_ASSERT(sexp_string_data(r)[sexp_string_size(r)] == 0, "substring is NUL terminated");
    KIT_ASSERT(sexp_string_bytes(r) != sexp_string_bytes(s), "substring is a fresh copy");
  } else KIT_ASSERT(sexp_exceptionp(r), "substring with bad indices is an error");
#elif OP == OP_CONCAT
  unsigned cps2[NCH + 2]; int n2;
  sexp s2 = any_string(cps2, &n2);
  sexp ls = kit_pair(s, kit_pair(s2, SEXP_NULL));
  sexp r = sexp_string_concatenate_op(ctx, SEXP_FALSE, 2, ls, SEXP_FALSE);
  KIT_ASSERT(sexp_stringp(r), "concatenate returns a string");
  unsigned all[2 * NCH + 2];
  int m = dec_result(r, all, 2 * NCH + 1, 2 * MAXB);
  KIT_ASSERT(m == n + n2, "concatenation has the sum of the lengths");
  for (int k = 0; k < 2 * NCH; k++) if (k < n + n2) KIT_ASSERT(all[k] == (k < n ? cps[k] : cps2[k - n]), "concatenation is the concatenation of the sequences");
  KIT_ASSERT(sexp_string_data(r)[sexp_string_size(r)] == 0, "concatenation is NUL terminated");
#endif
#endif
  KIT_WITNESS();
}
