/* C14 (C binding primitive): sexp_env_import_op of eval.c.  Names are four distinct symbol objects;
   the exporter binds S0 and S1, the importer binds S2 (and S0 in the CONFLICT shape).
   Import list shapes (-DSHAPE): 1 = (S1), 2 = ((S3 . S0)) rename to a fresh name, 3 = ((S2 . S0)) rename onto
   a name the importer already binds, 4 = (S0 S1), 5 = #f (import everything), 6 = (S3) a name the exporter lacks. */
#include "kit.h"
#include "kitfull.h"

/* sexp_warn prints a diagnostic through the error port: environment, modelled as a counter */
static int warnings;
KIT_C_BEGIN
void sexp_warn(sexp ctx, const char *msg, sexp x) { warnings++; }
KIT_C_END

static sexp mk_env(void) {
  sexp e = kit_alloc_tagged(sexp_sizeof(env), SEXP_ENV);
  sexp_env_parent(e) = NULL; sexp_env_lambda(e) = NULL; sexp_env_bindings(e) = SEXP_NULL; sexp_env_renames(e) = SEXP_NULL;
  return e;
}
static sexp env_bind(sexp env, sexp name, sexp val) {     /* what sexp_env_push does */
  sexp cell = kit_pair(name, val);
  sexp_env_next_cell(cell) = sexp_env_bindings(env);
  sexp_env_bindings(env) = cell;
  return cell;
}

void harness(void) {
  sexp ctx = kit_ctx_full();
  sexp S[4];
  for (int i = 0; i < 4; i++) { S[i] = kit_symbol(1); sexp_lsymbol_data(S[i])[0] = 'a' + i; }
  sexp from = mk_env(), to = mk_env();
  sexp v0 = kit_flonum(0.5), v1 = kit_flonum(1.5), w2 = kit_flonum(2.5), w0 = kit_flonum(3.5);
  sexp c0 = env_bind(from, S[0], v0), c1 = env_bind(from, S[1], v1);
  sexp d2 = env_bind(to, S[2], w2);
#ifdef CONFLICT
  sexp d0 = env_bind(to, S[0], w0);
#endif
  sexp_context_env(ctx) = to;
  sexp_context_specific(ctx) = SEXP_FALSE;
  sexp ls;
#if SHAPE == 1
  ls = kit_pair(S[1], SEXP_NULL);
#elif SHAPE == 2
  ls = kit_pair(kit_pair(S[3], S[0]), SEXP_NULL);
#elif SHAPE == 3
  ls = kit_pair(kit_pair(S[2], S[0]), SEXP_NULL);
#elif SHAPE == 4
  ls = kit_pair(S[0], kit_pair(S[1], SEXP_NULL));
#elif SHAPE == 5
  ls = SEXP_FALSE;
#else
  ls = kit_pair(S[3], SEXP_NULL);
#endif
  sexp r = sexp_env_import_op(ctx, SEXP_FALSE, 4, to, from, ls, SEXP_FALSE);
  KIT_ASSERT(r == SEXP_VOID, "import succeeds");
  sexp look[4];
  for (int i = 0; i < 4; i++) look[i] = sexp_env_cell(ctx, to, S[i], 0);
  /* an imported name denotes the exporter's own cell (one shared instance of state) */
#if SHAPE == 1
  KIT_ASSERT(look[1] == c1, "imported name denotes the exporter's cell");
  KIT_ASSERT(look[3] == NULL, "a name that was not requested is not visible");
#ifndef CONFLICT
  KIT_ASSERT(look[0] == NULL, "the exporter's other bindings are not visible");
#else
  KIT_ASSERT(look[0] == d0, "the importer's own binding of an un-imported name is kept");
#endif
  KIT_ASSERT(look[2] == d2, "the importer's earlier bindings stay visible");
#elif SHAPE == 2
  KIT_ASSERT(look[3] == c0, "a renamed import denotes the exporter's cell under the new name");
  KIT_ASSERT(look[1] == NULL && look[2] == d2, "nothing else changes");
#ifndef CONFLICT
  KIT_ASSERT(look[0] == NULL, "the old name is not visible after a rename");
#endif
#elif SHAPE == 3
  KIT_ASSERT(look[2] == c0, "an import shadows the importer's earlier binding of the same name");
  KIT_ASSERT(look[1] == NULL && look[3] == NULL, "nothing else becomes visible");
#elif SHAPE == 4
  KIT_ASSERT(look[0] == c0 && look[1] == c1 && look[2] == d2 && look[3] == NULL, "both requested names are imported, nothing else");
#elif SHAPE == 5
  KIT_ASSERT(look[0] == c0 && look[1] == c1 && look[2] == d2 && look[3] == NULL, "bulk import exposes exactly the exporter's bindings");
#else
  KIT_ASSERT(look[3] == NULL && look[0] == (
#ifdef CONFLICT
    d0
#else
    NULL
#endif
    ) && look[1] == NULL && look[2] == d2, "importing a name the exporter lacks binds nothing");
#endif
  /* the exporter is untouched, and state is shared, not copied */
  KIT_ASSERT(sexp_env_cell(ctx, from, S[0], 0) == c0 && sexp_env_cell(ctx, from, S[1], 0) == c1 && sexp_cdr(c0) == v0 && sexp_cdr(c1) == v1, "the exporter's environment is unchanged");
  KIT_ASSERT(sexp_env_cell(ctx, from, S[2], 0) == NULL && sexp_env_cell(ctx, from, S[3], 0) == NULL, "nothing leaks back into the exporter");
  /* a later definition in the importer goes to a fresh frame and does not disturb the exporter's cell */
  sexp nv = kit_flonum(9.5);
  sexp dr = sexp_env_define(ctx, to, S[1], nv);
  KIT_ASSERT(dr == SEXP_VOID && sexp_cdr(c1) == v1, "defining an imported name in the importer does not overwrite the exporter's cell");
  KIT_WITNESS();
}
