/* C15: equal? (sexp_equalp_op) and hash (sexp_hash of lib/srfi/69/hash.c) coherence.
   -DAKIND/-DBKIND enumerate the operand kinds (never symbolic, R10). */
#include "kit.h"
#include "kitfull.h"
KIT_C_BEGIN
sexp sexp_hash (sexp ctx, sexp self, sexp_sint_t n, sexp obj, sexp bound);
KIT_C_END

#define K_FIXNUM 1
#define K_FLONUM 2
#define K_BIG1 3
#define K_BIG2 4
#define K_STRING 5
#define K_BYTES 6
#define K_PAIR 7
#define K_VECTOR 8
#define K_SYMBOL 9
#define K_CHAR 10

#ifndef SLEN
#define SLEN 2          /* string / bytes payload length */
#endif
#ifndef STORE
#define STORE 4         /* length of the byte store a string points into */
#endif

static int is_canonical_big(sexp b) {      /* value does not fit a fixnum */
  sexp_uint_t hi = sexp_bignum_hi(b);
  if (hi > 1) return 1;
  sexp_uint_t w = sexp_bignum_data(b)[0];
  return sexp_bignum_sign(b) > 0 ? w > (sexp_uint_t)SEXP_MAX_FIXNUM : w > (sexp_uint_t)SEXP_MAX_FIXNUM + 1;
}

/* leaves of containers and the immediate kinds are per-query constants (R10: a symbolic
   immediate in a position whose kind the code tests keeps every kind test symbolic) */
#ifndef L1
#define L1 1
#define L2 2
#define L3 1
#define L4 2
#endif
static int leaf_no;
static sexp leaf(void) { static const sexp_sint_t v[4] = {L1, L2, L3, L4}; return sexp_make_fixnum(v[(leaf_no++) & 3]); }

static sexp make(int kind) {
  switch (kind) {
  case K_FIXNUM: return leaf();
  case K_CHAR: { sexp f = leaf(); return sexp_make_character(sexp_unbox_fixnum(f) & 0x1FFFFF); }
  case K_FLONUM: return kit_any_flonum();
  case K_BIG1: case K_BIG2: {
    sexp b = kit_any_bignum(kind == K_BIG1 ? 1 : 2, 0);
    __CPROVER_assume(is_canonical_big(b));
    return b; }
  case K_STRING: {
    sexp store = kit_any_bytes(STORE);
    sexp_uint_t off = nondet_uword();
    __CPROVER_assume(off <= STORE - SLEN);
    return kit_string_over(store, off, SLEN); }
  case K_BYTES: return kit_any_bytes(SLEN);
  case K_PAIR: return kit_pair(leaf(), leaf());
  case K_VECTOR: { sexp v = kit_vector(2); sexp_vector_data(v)[0] = leaf(); sexp_vector_data(v)[1] = leaf(); return v; }
  case K_SYMBOL: { sexp s = kit_symbol(SLEN); for (int i = 0; i < SLEN; i++) { char c = nondet_uchar(); __CPROVER_assume(c != 0); sexp_lsymbol_data(s)[i] = c; } return s; }
  }
  return SEXP_VOID;
}

/* the abstract value: used only for the "same contents => equal?" direction on kinds whose
   contents the harness can compare independently of equal? itself */
static int same_contents(int kind, sexp a, sexp b) {
  switch (kind) {
  case K_FIXNUM: case K_CHAR: return a == b;
  case K_BIG1: return sexp_bignum_sign(a) == sexp_bignum_sign(b) && sexp_bignum_data(a)[0] == sexp_bignum_data(b)[0];
  case K_BIG2: return sexp_bignum_sign(a) == sexp_bignum_sign(b) && sexp_bignum_data(a)[0] == sexp_bignum_data(b)[0]
                      && sexp_bignum_data(a)[1] == sexp_bignum_data(b)[1];
  case K_STRING: { for (int i = 0; i < SLEN; i++) if (sexp_string_data(a)[i] != sexp_string_data(b)[i]) return 0; return 1; }
  case K_BYTES: { for (int i = 0; i < SLEN; i++) if (sexp_bytes_data(a)[i] != sexp_bytes_data(b)[i]) return 0; return 1; }
  case K_PAIR: return sexp_car(a) == sexp_car(b) && sexp_cdr(a) == sexp_cdr(b);
  case K_VECTOR: return sexp_vector_data(a)[0] == sexp_vector_data(b)[0] && sexp_vector_data(a)[1] == sexp_vector_data(b)[1];
  }
  return 0;
}

void harness(void) {
  sexp ctx = kit_ctx_full();
  sexp a = make(AKIND), b = make(BKIND);
  sexp ab = sexp_equalp_op(ctx, SEXP_FALSE, 2, a, b);
  KIT_ASSERT(ab == SEXP_TRUE || ab == SEXP_FALSE, "equal? returns a boolean");
#if CHECK == 1      /* symmetry + contents */
  sexp ba = sexp_equalp_op(ctx, SEXP_FALSE, 2, b, a);
  KIT_ASSERT(ab == ba, "equal? is symmetric");
  KIT_ASSERT(sexp_equalp_op(ctx, SEXP_FALSE, 2, a, a) == SEXP_TRUE, "equal? is reflexive");
#if AKIND == BKIND && AKIND != K_FLONUM && AKIND != K_SYMBOL
  KIT_ASSERT((ab == SEXP_TRUE) == (same_contents(AKIND, a, b) != 0), "equal? holds exactly when the contents are the same");
#endif
#if AKIND != BKIND && !((AKIND == K_BIG1 && BKIND == K_BIG2) || (AKIND == K_BIG2 && BKIND == K_BIG1))
  KIT_ASSERT(ab == SEXP_FALSE, "objects of different kinds are not equal?");
#endif
#elif CHECK == 2    /* equal? => same hash */
  /* bound 0 selects the raw (un-reduced) hash value in hash_one: equality of the raw values
     implies equality modulo every table size, without a symbolic 64-bit division in the query */
  sexp ha = sexp_hash(ctx, SEXP_FALSE, 2, a, SEXP_ZERO);
  sexp hb = sexp_hash(ctx, SEXP_FALSE, 2, b, SEXP_ZERO);
  KIT_ASSERT(sexp_fixnump(ha) && sexp_fixnump(hb), "hash returns a fixnum");
  if (ab == SEXP_TRUE) KIT_ASSERT(ha == hb, "equal? objects have the same hash");
#ifdef MODCONST
  sexp hm = sexp_hash(ctx, SEXP_FALSE, 2, a, sexp_make_fixnum(MODCONST));
  KIT_ASSERT(sexp_fixnump(hm) && sexp_unbox_fixnum(hm) >= 0 && sexp_unbox_fixnum(hm) < MODCONST, "hash is in [0, bound)");
#endif
#elif CHECK == 3    /* transitivity */
  sexp c = make(BKIND);
  sexp bc = sexp_equalp_op(ctx, SEXP_FALSE, 2, b, c);
  sexp ac = sexp_equalp_op(ctx, SEXP_FALSE, 2, a, c);
  if (ab == SEXP_TRUE && bc == SEXP_TRUE) KIT_ASSERT(ac == SEXP_TRUE, "equal? is transitive");
#endif
  KIT_WITNESS();
}
