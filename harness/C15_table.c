/* C15 (hash tables as finite maps): sexp_hash_table_cell / sexp_hash_table_delete of lib/srfi/69/hash.c
   with the default hash and equal? as equivalence.  Keys are exact integers in possibly different
   in-memory representations (1-word bignum vs the same value with a spare leading zero word, or free).
   One insertion, then lookups / a deletion through a second key object B: the table must answer like an
   association list keyed by equal?. */
#include "kit.h"
#include "kitfull.h"
KIT_C_BEGIN
sexp_sint_t sexp_bignum_compare_abs (sexp a, sexp b);
sexp sexp_hash_table_cell (sexp ctx, sexp self, sexp_sint_t n, sexp ht, sexp obj, sexp createp);
sexp sexp_hash_table_delete (sexp ctx, sexp self, sexp_sint_t n, sexp ht, sexp obj);
KIT_C_END
#define HT_TAG SEXP_NUM_CORE_TYPES

#ifdef HASH_MODEL
/* specification of the default hash for the two key objects of this harness: an arbitrary value each,
   equal for equal? keys (established for the real body by the equal=>hash queries), reduced modulo the bound */
static sexp key_a, key_b;
static sexp_uint_t hash_a, hash_b;
KIT_C_BEGIN
sexp sexp_hash (sexp ctx, sexp self, sexp_sint_t n, sexp obj, sexp bound) {
  KIT_ASSERT(obj == key_a || obj == key_b, "only the two keys are hashed");
  KIT_ASSERT(sexp_fixnump(bound) && sexp_unbox_fixnum(bound) > 0, "the bound is the bucket count");
  sexp_uint_t h = (obj == key_a) ? hash_a : hash_b;
  return sexp_make_fixnum(h % (sexp_uint_t) sexp_unbox_fixnum(bound));
}
#ifdef SAME
/* ... and of equal? on the two keys: -DSAME says whether they are equal? (the harness constrains their contents
   accordingly); the real comparison is the subject of the symmetry/transitivity/contents queries */
sexp sexp_equalp_op (sexp ctx, sexp self, sexp_sint_t n, sexp a, sexp b) {
  if (a == b) return SEXP_TRUE;
  KIT_ASSERT((a == key_a && b == key_b) || (a == key_b && b == key_a), "only the two keys are compared");
  return SAME ? SEXP_TRUE : SEXP_FALSE;
}
#endif
KIT_C_END
#endif

static sexp mk_table(sexp ctx, int nbuckets) {
  /* register a "Hash-Table" record type (4 slots) in the context's type table, as (srfi 69) does */
  sexp t = kit_alloc_tagged(sexp_sizeof(type), SEXP_TYPE);
  sexp nm = kit_bytes(10);
  const char *lit = "Hash-Table";
  for (int i = 0; i < 10; i++) sexp_bytes_data(nm)[i] = lit[i];
  sexp_type_name(t) = kit_string_over(nm, 0, 10);
  sexp_type_tag(t) = HT_TAG; sexp_type_field_base(t) = sexp_sizeof_header; sexp_type_field_eq_len_base(t) = 4; sexp_type_field_len_base(t) = 4;
  sexp_type_size_base(t) = sexp_sizeof_header + 4 * sizeof(sexp);
  sexp types = sexp_global(ctx, SEXP_G_TYPES);
  sexp_vector_data(types)[HT_TAG] = t;
  sexp_vector_length(types) = HT_TAG + 1;
  sexp_global(ctx, SEXP_G_NUM_TYPES) = sexp_make_fixnum(HT_TAG + 1);
  sexp ht = kit_alloc_tagged(sexp_sizeof_header + 4 * sizeof(sexp), HT_TAG);
  sexp b = kit_vector(nbuckets);
  for (int i = 0; i < nbuckets; i++) sexp_vector_data(b)[i] = SEXP_NULL;
  sexp_slot_ref(ht, 0) = b; sexp_slot_ref(ht, 1) = SEXP_ZERO; sexp_slot_ref(ht, 2) = SEXP_TWO; sexp_slot_ref(ht, 3) = SEXP_TWO;
  return ht;
}
static int canonical(sexp b) {
  sexp_uint_t hi = sexp_bignum_hi(b);
  if (hi > 1) return 1;
  sexp_uint_t w = sexp_bignum_data(b)[0];
  return sexp_bignum_sign(b) > 0 ? w > (sexp_uint_t)SEXP_MAX_FIXNUM : w > (sexp_uint_t)SEXP_MAX_FIXNUM + 1;
}

void harness(void) {
  sexp ctx = kit_ctx_full();
  sexp ht = mk_table(ctx, NBUCKETS);
  sexp A = kit_any_bignum(AK, 0), B = kit_any_bignum(BK, 0);
  __CPROVER_assume(canonical(A) && canonical(B));
  sexp va = kit_flonum(1.5);
#ifdef SAME
  /* same value <=> equal? (both canonical exact integers) */
  _Bool eqv = sexp_bignum_sign(A) == sexp_bignum_sign(B) && sexp_bignum_compare_abs(A, B) == 0;
  __CPROVER_assume(eqv == (SAME != 0));
  key_a = A; key_b = B;
  sexp same = SAME ? SEXP_TRUE : SEXP_FALSE;
#else
  sexp same = sexp_equalp_op(ctx, SEXP_FALSE, 2, A, B);
#endif
#ifdef HASH_MODEL
  /* the specification's values are enumerated per query (-DHASH_A/-DHASH_B, residues modulo the bucket count:
     all the table code can observe); symbolic values would make the bucket, hence the stored key handed to
     equal?, a symbolic object and symex would explore equal?'s recursion on it */
  key_a = A; key_b = B; hash_a = HASH_A; hash_b = HASH_B;
  __CPROVER_assume(same != SEXP_TRUE || hash_a == hash_b);
#endif
  /* insert A */
  sexp ca = sexp_hash_table_cell(ctx, SEXP_FALSE, 3, ht, A, va);
  KIT_ASSERT(sexp_pairp(ca) && sexp_car(ca) == A && sexp_cdr(ca) == va && sexp_slot_ref(ht, 1) == SEXP_ONE, "insertion creates the cell and counts it");
  /* look B up (no create) */
  sexp cb = sexp_hash_table_cell(ctx, SEXP_FALSE, 3, ht, B, SEXP_FALSE);
  if (same == SEXP_TRUE) KIT_ASSERT(cb == ca, "a key equal? to the stored key finds the stored cell, whatever its representation");
  else KIT_ASSERT(cb == SEXP_FALSE, "a key not equal? to any stored key is absent");
#if OP == 2
  /* delete through B, then look A up again */
  sexp d = sexp_hash_table_delete(ctx, SEXP_FALSE, 2, ht, B);
  KIT_ASSERT(d == SEXP_VOID, "delete returns");
  sexp ca2 = sexp_hash_table_cell(ctx, SEXP_FALSE, 3, ht, A, SEXP_FALSE);
  if (same == SEXP_TRUE) KIT_ASSERT(ca2 == SEXP_FALSE && sexp_slot_ref(ht, 1) == SEXP_ZERO, "deleting an equal? key removes the entry and updates the size");
  else KIT_ASSERT(ca2 == ca && sexp_slot_ref(ht, 1) == SEXP_ONE, "deleting an absent key changes nothing");
#else
  /* insert B as well (create): the table holds one or two entries as the association-list model says */
  sexp vb = kit_flonum(2.5);
  sexp cb2 = sexp_hash_table_cell(ctx, SEXP_FALSE, 3, ht, B, vb);
  if (same == SEXP_TRUE) KIT_ASSERT(cb2 == ca && sexp_slot_ref(ht, 1) == SEXP_ONE, "no duplicate entry for an equal? key");
  else KIT_ASSERT(cb2 != ca && sexp_pairp(cb2) && sexp_car(cb2) == B && sexp_slot_ref(ht, 1) == SEXP_TWO, "a distinct key gets its own entry");
  KIT_ASSERT(sexp_hash_table_cell(ctx, SEXP_FALSE, 3, ht, A, SEXP_FALSE) == ca, "the first entry is still found");
#endif
  KIT_WITNESS();
}
