/* C17: lib/srfi/151/bit.c against an infinite two's-complement oracle.
   -DOP=<n> selects the operation, -DXK/-DYK the operand kinds (0 = fixnum, k>0 = bignum
   with exactly k words, all words free, either sign, leading zero words allowed but the
   value must not fit a fixnum — the invariant every integer reaching Scheme code has),
   -DSHIFT=<c> the shift count / bit index (D-const, see DESIGN R7). */
#include "kit.h"
#include "wide.h"

KIT_C_BEGIN
sexp sexp_bit_and (sexp ctx, sexp self, sexp_sint_t n, sexp x, sexp y);
sexp sexp_bit_ior (sexp ctx, sexp self, sexp_sint_t n, sexp x, sexp y);
sexp sexp_bit_xor (sexp ctx, sexp self, sexp_sint_t n, sexp x, sexp y);
sexp sexp_arithmetic_shift (sexp ctx, sexp self, sexp_sint_t n, sexp i, sexp count);
sexp sexp_bit_count (sexp ctx, sexp self, sexp_sint_t n, sexp x);
sexp sexp_integer_length (sexp ctx, sexp self, sexp_sint_t n, sexp x);
sexp sexp_bit_set_p (sexp ctx, sexp self, sexp_sint_t n, sexp i, sexp x);
KIT_C_END

#define OP_AND 1
#define OP_IOR 2
#define OP_XOR 3
#define OP_SHIFT 4
#define OP_COUNT 5
#define OP_LENGTH 6
#define OP_SETP 7

/* A fixnum operand whose partner branch is heavy is a constant from the boundary lattice
   (XV / YV): with a symbolic fixnum the kind tests of the real code stay symbolic and symex
   wanders through the (infeasible) bignum branches with garbage lengths (DESIGN R10). */
#define KIT_FIXNUM_SYMBOLIC 0x7fffffff
#ifndef XV
#define XV KIT_FIXNUM_SYMBOLIC
#endif
#ifndef YV
#define YV KIT_FIXNUM_SYMBOLIC
#endif
static sexp operand(int kind, sexp_sint_t cval) {
  if (kind == 0) return cval == KIT_FIXNUM_SYMBOLIC ? kit_any_fixnum() : sexp_make_fixnum(cval);
  sexp b = kit_any_bignum(kind, 0);
  __CPROVER_assume(wide_canonical(b));
  return b;
}

static sexp_sint_t wide_popcount(wide v) {
  uwide u = (uwide)(v < 0 ? ~v : v);
  sexp_sint_t c = 0;
  for (int i = 0; i < 64*KIT_MAXW; i++) c += (sexp_sint_t)((u >> i) & 1);
  return c;
}
static sexp_sint_t wide_length(wide v) {
  uwide u = (uwide)(v < 0 ? ~v : v);
  sexp_sint_t c = 0;
  for (int i = 0; i < 64*KIT_MAXW; i++) if ((u >> i) & 1) c = i + 1;
  return c;
}

void harness(void) {
  sexp ctx = kit_ctx();
  sexp x = operand(XK, XV);
  wide vx = wide_of(x);
#if OP == OP_AND || OP == OP_IOR || OP == OP_XOR
  sexp y = operand(YK, YV);
  wide vy = wide_of(y), expect;
  sexp res;
#if OP == OP_AND
  res = sexp_bit_and(ctx, SEXP_FALSE, 2, x, y); expect = vx & vy;
#elif OP == OP_IOR
  res = sexp_bit_ior(ctx, SEXP_FALSE, 2, x, y); expect = vx | vy;
#else
  res = sexp_bit_xor(ctx, SEXP_FALSE, 2, x, y); expect = vx ^ vy;
#endif
  KIT_ASSERT(wide_canonical(res), "result is a canonical exact integer");
  KIT_ASSERT(wide_of(res) == expect, "result equals two's-complement oracle");
  /* operands are not modified */
  KIT_ASSERT(wide_of(x) == vx && wide_of(y) == vy, "operands unchanged");
#elif OP == OP_SHIFT
  sexp res = sexp_arithmetic_shift(ctx, SEXP_FALSE, 2, x, sexp_make_fixnum(SHIFT));
  wide expect = (SHIFT >= 0) ? (vx << (SHIFT >= 0 ? SHIFT : 0)) : (vx >> (SHIFT < 0 ? -(SHIFT) : 0));
  KIT_ASSERT(wide_canonical(res), "result is a canonical exact integer");
  KIT_ASSERT(wide_of(res) == expect, "shift equals floor(x * 2^count)");
  KIT_ASSERT(wide_of(x) == vx, "operand unchanged");
#elif OP == OP_COUNT
  sexp res = sexp_bit_count(ctx, SEXP_FALSE, 1, x);
  KIT_ASSERT(sexp_fixnump(res), "bit-count returns a fixnum");
  KIT_ASSERT(sexp_unbox_fixnum(res) == wide_popcount(vx), "bit-count equals popcount of x (or of ~x if negative)");
#elif OP == OP_LENGTH
  sexp res = sexp_integer_length(ctx, SEXP_FALSE, 1, x);
  KIT_ASSERT(sexp_fixnump(res), "integer-length returns a fixnum");
  KIT_ASSERT(sexp_unbox_fixnum(res) == wide_length(vx), "integer-length equals bit length");
#elif OP == OP_SETP
  sexp res = sexp_bit_set_p(ctx, SEXP_FALSE, 2, sexp_make_fixnum(SHIFT), x);
  KIT_ASSERT(res == SEXP_TRUE || res == SEXP_FALSE, "bit-set? returns a boolean");
  KIT_ASSERT((res == SEXP_TRUE) == (((vx >> (SHIFT)) & 1) != 0), "bit-set? equals bit of two's complement");
#endif
  KIT_WITNESS();
}
