/* C18: lib/srfi/95/qsort.c — sexp_sort_x (both the object-compare fast path and the
   user-comparator path) and sexp_object_compare_op.
   -DN=<n> elements, -DMODE: 1 = less is #f (object-cmp fast path, flonum elements), 5 = the same on fixnums from a boundary lattice (-DE0 -DE1 -DE2),
   2 = less is a procedure (environment: sexp_apply implements "some strict weak order":
   order by a free key per element), 3 = as 2 but the comparator raises at a free call,
   -DLIST: input is a list instead of a vector.  4 = sexp_object_compare_op laws. */
#include "kit.h"
#include "kitfull.h"
KIT_C_BEGIN
sexp sexp_sort_x (sexp ctx, sexp self, sexp_sint_t n, sexp seq, sexp less, sexp key);
sexp sexp_object_compare_op (sexp ctx, sexp self, sexp_sint_t n, sexp a, sexp b);
KIT_C_END

#ifndef N
#define N 3
#endif
#define KEYBITS 2

static sexp less_proc, the_exn;
static int calls, raise_at;

/* environment: the VM is not the subject here.  `less` is applied to (a b); elements are
   fixnums  key*8+index ; the order is by key only, so equal keys exercise stability */
sexp sexp_apply(sexp ctx, sexp proc, sexp args) {
  KIT_ASSERT(proc == less_proc, "only the comparator is applied");
  KIT_ASSERT(sexp_pairp(args) && sexp_pairp(sexp_cdr(args)), "comparator gets two arguments");
  sexp a = sexp_car(args), b = sexp_cadr(args);
  calls++;
  if (raise_at && calls == raise_at) return the_exn;
  return sexp_make_boolean((sexp_unbox_fixnum(a) >> 3) < (sexp_unbox_fixnum(b) >> 3));
}

static int sgn(sexp_sint_t v) { return v < 0 ? -1 : v > 0 ? 1 : 0; }

void harness(void) {
  sexp ctx = kit_ctx_full();
  sexp elem[N > 0 ? N : 1];
  sexp seq, res;
#if MODE == 1
  for (int i = 0; i < N; i++) { double d = nondet_double(); __CPROVER_assume(d == d); elem[i] = kit_flonum(d); }
#elif MODE == 5
  /* object-cmp fast path on immediates: fixnums from the boundary lattice, chosen per query (R10: a free fixnum keeps the
     kind tests of sexp_object_compare symbolic and symex does not finish within 300 s) */
#define LAT(i) ((i) == 0 ? SEXP_MIN_FIXNUM : (i) == 1 ? -1 : (i) == 2 ? 0 : (i) == 3 ? 1 : SEXP_MAX_FIXNUM)
  { static const int pick[3] = { E0, E1, E2 };
    for (int i = 0; i < N; i++) elem[i] = sexp_make_fixnum(LAT(pick[i % 3])); }
#elif MODE == 2 || MODE == 3
  for (int i = 0; i < N; i++) {
    sexp_sint_t k = nondet_sword(); __CPROVER_assume(k >= 0 && k < (1 << KEYBITS));
    elem[i] = sexp_make_fixnum(k * 8 + i);
  }
  less_proc = kit_alloc_tagged(sexp_sizeof(procedure), SEXP_PROCEDURE);
  the_exn = kit_alloc_tagged(sexp_sizeof(exception), SEXP_EXCEPTION);
#endif
#if MODE == 3
  raise_at = nondet_int(); __CPROVER_assume(raise_at >= 1 && raise_at <= N * N);
#endif
#if MODE <= 3 || MODE == 5
#ifdef LIST
  seq = SEXP_NULL;
  for (int i = N - 1; i >= 0; i--) seq = kit_pair(elem[i], seq);
#else
  seq = kit_vector(N);
  for (int i = 0; i < N; i++) sexp_vector_data(seq)[i] = elem[i];
#if N == 0
  seq = sexp_global(ctx, SEXP_G_EMPTY_VECTOR);
#endif
#endif
  res = sexp_sort_x(ctx, SEXP_FALSE, 3, seq, (MODE == 1 || MODE == 5) ? SEXP_FALSE : less_proc, SEXP_FALSE);
#if MODE == 3
  if (calls >= raise_at) { KIT_ASSERT(res == the_exn, "an exception raised by the comparator propagates"); }
  else
#endif
  {
    sexp out[N > 0 ? N : 1];
#ifdef LIST
    KIT_ASSERT(N == 0 ? res == SEXP_NULL : sexp_pairp(res), "sorting a list returns a list");
    sexp p = res;
    for (int i = 0; i < N; i++) { KIT_ASSERT(sexp_pairp(p), "result list has n elements"); out[i] = sexp_car(p); p = sexp_cdr(p); }
    KIT_ASSERT(p == SEXP_NULL, "result list has exactly n elements");
#else
    KIT_ASSERT(sexp_vectorp(res) && sexp_vector_length(res) == N, "sorting a vector returns a vector of the same length");
    for (int i = 0; i < N; i++) out[i] = sexp_vector_data(res)[i];
#endif
#if MODE == 5
    /* permutation of a multiset: every value occurs as often in the result as in the input */
    for (int i = 0; i < N; i++) {
      int cin = 0, cout = 0;
      for (int j = 0; j < N; j++) { if (elem[j] == elem[i]) cin++; if (out[j] == elem[i]) cout++; }
      KIT_ASSERT(cin == cout, "the result is a permutation of the input (fixnums, with multiplicity)");
    }
#else
    /* permutation: every input element occurs exactly once (elements are pairwise distinct objects) */
    for (int i = 0; i < N; i++) {
      int cnt = 0;
      for (int j = 0; j < N; j++) if (out[j] == elem[i]) cnt++;
      KIT_ASSERT(cnt == 1, "the result is a permutation of the input");
    }
#endif
    /* ordered and stable */
    for (int i = 0; i + 1 < N; i++) {
#if MODE == 1
      double x = sexp_flonum_value(out[i]), y = sexp_flonum_value(out[i+1]);
      KIT_ASSERT(x <= y, "the result is ordered");
      if (x == y) {
        int ix = 0, iy = 0;
        for (int j = 0; j < N; j++) { if (elem[j] == out[i]) ix = j; if (elem[j] == out[i+1]) iy = j; }
        KIT_ASSERT(ix < iy, "equal elements keep their input order (stable)");
      }
#elif MODE == 5
      KIT_ASSERT(sexp_fixnump(out[i]) && sexp_fixnump(out[i+1]), "fixnums stay fixnums");
      KIT_ASSERT(sexp_unbox_fixnum(out[i]) <= sexp_unbox_fixnum(out[i+1]), "the result is in numeric order (fixnums, boundary lattice)");
#else
      sexp_sint_t x = sexp_unbox_fixnum(out[i]), y = sexp_unbox_fixnum(out[i+1]);
      KIT_ASSERT((x >> 3) <= (y >> 3), "the result is ordered by the comparator");
      if ((x >> 3) == (y >> 3)) KIT_ASSERT((x & 7) < (y & 7), "equal elements keep their input order (stable)");
#endif
    }
  }
#elif MODE == 4
  /* object-cmp laws on pairs/triples of one kind: KIND 1 flonum (no NaN), 2 bignum (1 word), 3 string (<= 2 chars) */
  sexp v[3];
  for (int i = 0; i < 3; i++) {
#if KIND == 1
    double d = nondet_double(); __CPROVER_assume(d == d); v[i] = kit_flonum(d);
#elif KIND == 2
    v[i] = kit_any_bignum(1, 1);
#elif KIND == 4
#define LAT(i) ((i) == 0 ? SEXP_MIN_FIXNUM : (i) == 1 ? -1 : (i) == 2 ? 0 : (i) == 3 ? 1 : SEXP_MAX_FIXNUM)
    v[i] = sexp_make_fixnum(i == 0 ? LAT(E0) : i == 1 ? LAT(E1) : LAT(E2));
#else
    sexp b = kit_bytes(2);
    sexp_bytes_data(b)[0] = nondet_uchar(); sexp_bytes_data(b)[1] = nondet_uchar();
    sexp_uint_t len = nondet_uword(); __CPROVER_assume(len <= 2);
    /* chibi strings are NUL terminated in their store */
    if (len < 2) sexp_bytes_data(b)[len] = 0;
    __CPROVER_assume(len < 1 || sexp_bytes_data(b)[0] != 0);
    __CPROVER_assume(len < 2 || sexp_bytes_data(b)[1] != 0);
    v[i] = kit_string_over(b, 0, len);
#endif
  }
  sexp_sint_t ab = sexp_unbox_fixnum(sexp_object_compare_op(ctx, SEXP_FALSE, 2, v[0], v[1]));
  sexp_sint_t ba = sexp_unbox_fixnum(sexp_object_compare_op(ctx, SEXP_FALSE, 2, v[1], v[0]));
  sexp_sint_t bc = sexp_unbox_fixnum(sexp_object_compare_op(ctx, SEXP_FALSE, 2, v[1], v[2]));
  sexp_sint_t ac = sexp_unbox_fixnum(sexp_object_compare_op(ctx, SEXP_FALSE, 2, v[0], v[2]));
#if KIND == 4
  { sexp_sint_t x = sexp_unbox_fixnum(v[0]), y = sexp_unbox_fixnum(v[1]);
    KIT_ASSERT(sgn(ab) == (x < y ? -1 : x > y ? 1 : 0), "object-cmp on two fixnums agrees with numeric order (boundary lattice)"); }
#endif
  KIT_ASSERT(sgn(ab) == -sgn(ba), "object-cmp is antisymmetric");
  if (ab <= 0 && bc <= 0) KIT_ASSERT(ac <= 0, "object-cmp is transitive");
  if (ab == 0 && bc == 0) KIT_ASSERT(ac == 0, "object-cmp equivalence is transitive");
  KIT_ASSERT(sexp_unbox_fixnum(sexp_object_compare_op(ctx, SEXP_FALSE, 2, v[0], v[0])) == 0, "object-cmp is reflexive");
#endif
  KIT_WITNESS();
}
