/* C19 / C01: the generated accessors of lib/scheme/bytevector.stub (C regenerated on every run by the
   repo's own tools/chibi-ffi, run with a bootstrap interpreter built from the current tree).
   -DT=<u16|s16|u32|s32|u64|s64> -DSZ=<bytes> -DNATIVE or endianness-taking variant. */
#include "kit.h"
#include "kitfull.h"
#include <stdint.h>
#define CAT3(a,b,c) a##b##c
#define X3(a,b,c) CAT3(a,b,c)
#ifdef NATIVE
#define REF X3(sexp_bytevector_, T, _native_ref_stub)
#define SET X3(sexp_bytevector_, T, _native_set_x_stub)
KIT_C_BEGIN
sexp REF (sexp ctx, sexp self, sexp_sint_t n, sexp bv, sexp k);
sexp SET (sexp ctx, sexp self, sexp_sint_t n, sexp bv, sexp k, sexp v);
KIT_C_END
#define CALL_REF(bv, k) REF(ctx, SEXP_FALSE, 2, bv, k)
#define CALL_SET(bv, k, v) SET(ctx, SEXP_FALSE, 3, bv, k, v)
#else
#define REF X3(sexp_bytevector_, T, _ref_stub)
#define SET X3(sexp_bytevector_, T, _set_x_stub)
KIT_C_BEGIN
sexp REF (sexp ctx, sexp self, sexp_sint_t n, sexp bv, sexp k, sexp endian);
sexp SET (sexp ctx, sexp self, sexp_sint_t n, sexp bv, sexp k, sexp v, sexp endian);
KIT_C_END
#define CALL_REF(bv, k) REF(ctx, SEXP_FALSE, 3, bv, k, endian)
#define CALL_SET(bv, k, v) SET(ctx, SEXP_FALSE, 4, bv, k, v, endian)
#endif
#ifndef BL
#define BL 9
#endif

void harness(void) {
  sexp ctx = kit_ctx_full();
  sexp little = kit_symbol(6), big = kit_symbol(3);
  sexp_global(ctx, SEXP_G_ENDIANNESS) = little;
  sexp endian = nondet_bool() ? little : big;
  int swap = (endian != little);
#ifdef NATIVE
  swap = 0;
#endif
  sexp bv = kit_any_bytes(BL);
  unsigned char before[BL];
  for (int i = 0; i < BL; i++) before[i] = (unsigned char)sexp_bytes_data(bv)[i];
  sexp_sint_t k = nondet_sword();
  __CPROVER_assume(k >= -3 && k <= BL + 3);
  int inb = (k >= 0 && k + SZ <= BL);
  /* expected value at k (little-endian host), byte-swapped for the non-native order */
  uint64_t raw = 0;
  if (inb) for (int i = 0; i < SZ; i++) raw |= (uint64_t)before[k + (swap ? SZ - 1 - i : i)] << (8 * i);
  sexp r = CALL_REF(bv, sexp_make_fixnum(k));
  if (inb) {
    KIT_ASSERT(!sexp_exceptionp(r), "an in-range reference succeeds");
#if SIGNEDT
    int64_t sv = (SZ == 8) ? (int64_t)raw : (int64_t)(raw << (64 - 8*SZ)) >> (64 - 8*SZ);
    KIT_ASSERT((int64_t)sexp_sint_value(r) == sv, "the referenced value is assembled from exactly the addressed bytes");
#else
    KIT_ASSERT((uint64_t)sexp_uint_value(r) == raw, "the referenced value is assembled from exactly the addressed bytes");
#endif
  } else {
    KIT_ASSERT(sexp_exceptionp(r), "a reference whose bytes are not all inside the bytevector is an error");
  }
  /* store a free value and read the bytes back */
  uint64_t v = nondet_uword();
#if SZ < 8
  v &= (((uint64_t)1 << (8*SZ)) - 1);
#endif
#if SIGNEDT
  int64_t sval = (SZ == 8) ? (int64_t)v : (int64_t)(v << (64 - 8*SZ)) >> (64 - 8*SZ);
  sexp vv = sexp_make_integer(ctx, sval);
#else
  sexp vv = sexp_make_unsigned_integer(ctx, v);
#endif
  sexp s = CALL_SET(bv, sexp_make_fixnum(k), vv);
  for (int i = 0; i < BL; i++) {
    unsigned char now = (unsigned char)sexp_bytes_data(bv)[i];
    if (inb && i >= k && i < k + SZ) {
      int j = (int)(i - k);
      KIT_ASSERT(now == (unsigned char)(v >> (8 * (swap ? SZ - 1 - j : j))), "the store writes the value's bytes in the requested order");
    } else KIT_ASSERT(now == before[i], "bytes outside the addressed range are untouched");
  }
  KIT_ASSERT(sexp_bytes_length(bv) == BL, "the length field is untouched");
  if (!inb) KIT_ASSERT(sexp_exceptionp(s), "a store whose bytes are not all inside the bytevector is an error");
  KIT_WITNESS();
}
