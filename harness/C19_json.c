/* C19: lib/chibi/json.c string codec on hand-built buffer ports (the macros sexp_read_char /
   sexp_write_char / sexp_write_string operate on the port buffer; refill/flush are environment).
   OP 1: json_read_string on NIN arbitrary bytes: total, memory safe.
   OP 2: json_write_string then json_read_string round trip for strings of <= NCH scalar values. */
#include "kit.h"
#include "kitfull.h"
#include <stdarg.h>
KIT_C_BEGIN
sexp json_read_string (sexp ctx, sexp self, sexp in);
sexp json_write_string (sexp ctx, sexp self, const sexp obj, sexp out);
KIT_C_END

#ifndef NIN
#define NIN 5
#endif
#ifndef NCH
#define NCH 2
#endif
#ifndef OBUF
#define OBUF 16
#endif

/* environment: buffer refill / flush never succeed (the whole input / output is in the buffer) */
static int exn_count;
KIT_C_BEGIN
int sexp_buffered_read_char (sexp ctx, sexp p) { return EOF; }
int sexp_buffered_flush (sexp ctx, sexp p, int forcep) { return -1; }
sexp sexp_json_read_exception (sexp ctx, sexp self, const char* msg, sexp in, sexp ir) {
  exn_count++;
  sexp e = kit_alloc_tagged(sexp_sizeof(exception), SEXP_EXCEPTION);
  sexp_exception_irritants(e) = ir; return e;
}
sexp sexp_json_write_exception (sexp ctx, sexp self, const char* msg, sexp obj) {
  exn_count++;
  sexp e = kit_alloc_tagged(sexp_sizeof(exception), SEXP_EXCEPTION);
  sexp_exception_irritants(e) = obj; return e;
}
#ifndef KIT_NATIVE
/* libc model, exact for the two formats json_write_string uses: "\\u%04lX" and "\\u%04lX\\u%04lX" */
static int put_u4(char *s, unsigned long v) {
  static const char hx[] = "0123456789ABCDEF";
  s[0] = '\\'; s[1] = 'u';
  for (int k = 0; k < 4; k++) s[2 + k] = hx[(v >> (12 - 4 * k)) & 15];
  return 6;
}
int snprintf(char *s, size_t n, const char *fmt, ...) {
  va_list ap; va_start(ap, fmt);
  __CPROVER_assert(fmt[0] == '\\' && fmt[1] == 'u' && fmt[2] == '%' && fmt[3] == '0' && fmt[4] == '4' && fmt[5] == 'l' && fmt[6] == 'X', "PROP snprintf model: only the \\u%04lX formats are modelled");
  unsigned long a = va_arg(ap, unsigned long);
  __CPROVER_assert(a <= 0xFFFF, "PROP snprintf model: value fits four hex digits");
  int len = put_u4(s, a);
  if (fmt[7] != 0) { unsigned long b = va_arg(ap, unsigned long); __CPROVER_assert(b <= 0xFFFF, "PROP snprintf model: value fits four hex digits"); len += put_u4(s + 6, b); }
  s[len] = 0; va_end(ap);
  return len;
}
#endif
KIT_C_END

static sexp mk_port(int tag, char *buf, sexp_uint_t size) {
  sexp p = kit_alloc_tagged(sexp_sizeof(port), tag);
  sexp_port_buf(p) = buf; sexp_port_size(p) = size; sexp_port_offset(p) = 0; sexp_port_stream(p) = NULL;
  sexp_port_openp(p) = 1; sexp_port_name(p) = SEXP_FALSE; sexp_port_line(p) = 1; sexp_port_fd(p) = SEXP_FALSE;
  return p;
}
static int is_scalar(unsigned c) { return c <= 0x10FFFF && !(c >= 0xD800 && c <= 0xDFFF); }

void harness(void) {
  sexp ctx = kit_ctx_full();
#if OP == 1
  static char inbuf[NIN + 2];
  sexp_uint_t n = nondet_uword(); __CPROVER_assume(n <= NIN);
  for (int i = 0; i < NIN; i++) inbuf[i] = (char)nondet_uchar();
  sexp in = mk_port(SEXP_IPORT, inbuf + 1, n);      /* one byte of head-room for push-back at offset 0 */
  sexp r = json_read_string(ctx, SEXP_FALSE, in);
  KIT_ASSERT(sexp_stringp(r) || sexp_exceptionp(r), "the string reader returns a string or an error object on arbitrary input");
  KIT_ASSERT(sexp_port_offset(in) <= n, "the reader does not run past the end of the input");
  if (sexp_stringp(r)) KIT_ASSERT(sexp_string_size(r) <= 4 * NIN, "the result is no longer than the input allows");
#else
  /* a string of <= NCH free scalar values, encoded by the (C12-verified) encoder */
  unsigned cps[NCH]; sexp_uint_t nch = nondet_uword(); __CPROVER_assume(nch <= NCH);
  sexp store = kit_bytes(4 * NCH);
  sexp_uint_t size = 0;
  for (int k = 0; k < NCH; k++) if ((sexp_uint_t)k < nch) {
    cps[k] = (unsigned) nondet_uword(); __CPROVER_assume(is_scalar(cps[k]));
#ifdef ASCII_ONLY
    __CPROVER_assume(cps[k] < 0x80);
#endif
    int w = sexp_utf8_char_byte_count(cps[k]);
    sexp_utf8_encode_char((unsigned char *)sexp_bytes_data(store) + size, w, cps[k]);
    size += w;
  }
  sexp s = kit_string_over(store, 0, size);
  static char obuf[OBUF];
  sexp out = mk_port(SEXP_OPORT, obuf, OBUF);
  sexp w = json_write_string(ctx, SEXP_FALSE, s, out);
  KIT_ASSERT(w == SEXP_VOID, "writing a string of scalar values succeeds");
  sexp_uint_t len = sexp_port_offset(out);
  KIT_ASSERT(len >= 2 && obuf[0] == '"' && obuf[len-1] == '"', "the output is delimited by double quotes");
  for (int i = 1; i < OBUF - 1; i++) if ((sexp_uint_t)i < len - 1)
    KIT_ASSERT((unsigned char)obuf[i] >= 0x20 && (obuf[i] != '"' || obuf[i-1] == '\\'), "no raw control character or unescaped quote inside the JSON string");
  /* read it back (skip the opening quote as json_read does) */
  sexp in = mk_port(SEXP_IPORT, obuf, len);
  sexp_port_offset(in) = 1;
  sexp r = json_read_string(ctx, SEXP_FALSE, in);
  KIT_ASSERT(sexp_stringp(r), "the written text reads back as a string");
  KIT_ASSERT(sexp_string_size(r) == size, "round trip keeps the length");
  for (int i = 0; i < 4 * NCH; i++) if ((sexp_uint_t)i < size) KIT_ASSERT(sexp_string_data(r)[i] == sexp_bytes_data(store)[i], "json_read_string(json_write_string(s)) == s");
#endif
  KIT_WITNESS();
}
