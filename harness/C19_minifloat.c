/* C19 (C codecs): the mini-float codecs of sexp.c — the whole 8-/16-bit domain in one query each. */
#include "kit.h"
#include "kitfull.h"
#include <math.h>
unsigned short nondet_ushort(void);

void harness(void) {
#if OP == 1     /* quarter (1.5.2) */
  unsigned char q = nondet_uchar();
  unsigned char mag = q & 127;
  __CPROVER_assume(mag <= 124);                  /* 125..127 are NaN slots */
  double d = sexp_quarter_to_double(q);
  unsigned char back = sexp_double_to_quarter(d);
  KIT_ASSERT(back == q || (q == 128 && back == 0), "quarter -> double -> quarter is the identity (negative zero comes back as zero)");
  unsigned char q2 = nondet_uchar();
  __CPROVER_assume(q2 <= 124 && q <= 124);
  if (q < q2) KIT_ASSERT(sexp_quarter_to_double(q) < sexp_quarter_to_double(q2), "quarter decoding is strictly monotone on non-negative codes");
  if (q <= 123) KIT_ASSERT(!isinf(d) && !isnan(d), "finite codes decode to finite values");
#elif OP == 2   /* half: canonical patterns */
  unsigned short h = nondet_ushort();
  unsigned e = (h >> 10) & 31;
  __CPROVER_assume(e != 31 || h == 31744 || h == 64512);      /* finite, +inf, -inf (NaN has one canonical code, checked below) */
  double d = sexp_half_to_double(h);
  unsigned short back = sexp_double_to_half(d);
  KIT_ASSERT(back == h, "half -> double -> half is the identity on every non-NaN code");
  KIT_ASSERT(!isnan(d), "non-NaN codes decode to numbers");
  KIT_ASSERT((isinf(d) != 0) == (h == 31744 || h == 64512), "only the two infinity codes decode to infinities");
  unsigned short h2 = nondet_ushort();
  __CPROVER_assume(h < 31744 && h2 < 31744);
  if (h < h2) KIT_ASSERT(sexp_half_to_double(h) < sexp_half_to_double(h2), "half decoding is strictly monotone on non-negative finite codes");
#elif OP == 3   /* half: NaN */
  KIT_ASSERT(isnan(sexp_half_to_double(32767)), "the NaN code decodes to NaN");
  KIT_ASSERT(sexp_double_to_half(NAN) == 32767, "NaN encodes to the NaN code");
  KIT_ASSERT(sexp_double_to_half(INFINITY) == 31744 && sexp_double_to_half(-INFINITY) == 64512, "infinities encode to the infinity codes");
  KIT_ASSERT(sexp_double_to_quarter(NAN) == 127 && sexp_double_to_quarter(INFINITY) == 124 && sexp_double_to_quarter(-INFINITY) == 252, "quarter specials");
#elif OP == 4   /* double -> half on values that are exactly representable: decode(encode(x)) == x */
  unsigned short h = nondet_ushort();
  unsigned e = (h >> 10) & 31;
  __CPROVER_assume(e != 31);
  double d = sexp_half_to_double(h);
  KIT_ASSERT(sexp_half_to_double(sexp_double_to_half(d)) == d, "representable values survive encode/decode");
#endif
  KIT_WITNESS();
}
