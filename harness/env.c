/* Environment for leaf harnesses that do NOT link the real sexp.c / gc.c:
   - sexp_alloc / sexp_alloc_tagged_aux: exact-size fresh blocks (R2, R3)
   - exception constructors: small model (fresh exception object carrying irritants)
   Listed in every evidence file that uses it. */
#include "kit.h"

int kit_exceptions_made;
sexp kit_the_ctx;

#ifndef KIT_MAX_WORDS
#define KIT_MAX_WORDS 24
#endif
#include "objalloc.h"

/* generic fallback objects: header + n-1 pointer-typed (or integer-typed) words */
#define KIT_PAYLOADS(X) X(1) X(2) X(3) X(4) X(5) X(6) X(7) X(8) X(9) X(10) X(11) X(12) X(13) X(14) X(15) X(16) \
  X(17) X(18) X(19) X(20) X(21) X(22) X(23) X(24) X(25) X(26) X(27) X(28) X(29) X(30) X(31) X(32)
#define KIT_DEF(P) struct kit_obj_##P { KIT_HDR sexp w[P]; }; static void *kit_new_##P(void) KIT_ZNEW(kit_obj_##P)
KIT_PAYLOADS(KIT_DEF)
#define KIT_IDEF(P) struct kit_iobj_##P { KIT_HDR sexp_uint_t w[P]; }; static void *kit_inew_##P(void) KIT_ZNEW(kit_iobj_##P)
KIT_PAYLOADS(KIT_IDEF)

void *kit_alloc_n(size_t n) {
#ifdef KIT_NATIVE
  return calloc(n ? n : 1, sizeof(sexp_uint_t));
#else
#define KIT_SW(P) case P + 1: return kit_new_##P();
  switch (n) {
  case 1: return kit_newf_hdr();
  KIT_PAYLOADS(KIT_SW)
  default: break;
  }
  sexp *p = malloc(n * sizeof(sexp));     /* large: plain array of words */
  __CPROVER_assume(p != 0);
  __CPROVER_array_set(p, (sexp)0);
  return p;
#endif
}
void *kit_alloc_in(size_t n) {
#ifdef KIT_NATIVE
  return calloc(n ? n : 1, sizeof(sexp_uint_t));
#else
#define KIT_ISW(P) case P + 1: return kit_inew_##P();
  switch (n) {
  case 1: return kit_newf_hdr();
  KIT_PAYLOADS(KIT_ISW)
  default: break;
  }
  sexp_uint_t *p = malloc(n * sizeof(sexp_uint_t));
  __CPROVER_assume(p != 0);
  __CPROVER_array_set(p, (sexp_uint_t)0);
  return p;
#endif
}
static int kit_numeric_tag(sexp_uint_t tag) {
  return tag == SEXP_BIGNUM || tag == SEXP_BYTES || tag == SEXP_FLONUM || tag == SEXP_SYMBOL;
}

#define KIT_CASE(k) case k: if (k <= KIT_MAX_WORDS) return numeric ? kit_alloc_in(k) : kit_alloc_n(k); break;
static void *kit_alloc_words2(size_t bytes, int numeric) {
  size_t n = (bytes + sizeof(sexp_uint_t) - 1) / sizeof(sexp_uint_t);
#ifdef KIT_NATIVE
  return kit_alloc_n(n);
#else
  /* the size is case-split so that every object has a concrete size even when the requested
     size is symbolic (symbolic-size objects exhaust memory in the back end); a request above
     the harness bound is reported, never silently cut */
  __CPROVER_assert(n <= KIT_MAX_WORDS, "PROP allocation request within the harness bound KIT_MAX_WORDS");
  __CPROVER_assume(n <= KIT_MAX_WORDS);
  switch (n) {
    KIT_CASE(0) KIT_CASE(1) KIT_CASE(2) KIT_CASE(3) KIT_CASE(4) KIT_CASE(5) KIT_CASE(6) KIT_CASE(7)
    KIT_CASE(8) KIT_CASE(9) KIT_CASE(10) KIT_CASE(11) KIT_CASE(12) KIT_CASE(13) KIT_CASE(14) KIT_CASE(15)
    KIT_CASE(16) KIT_CASE(17) KIT_CASE(18) KIT_CASE(19) KIT_CASE(20) KIT_CASE(21) KIT_CASE(22) KIT_CASE(23)
    KIT_CASE(24)
#if KIT_MAX_WORDS > 24
    default: return numeric ? kit_alloc_in(KIT_MAX_WORDS) : kit_alloc_n(KIT_MAX_WORDS);
#endif
  }
  return numeric ? kit_alloc_in(KIT_MAX_WORDS) : kit_alloc_n(KIT_MAX_WORDS);
#endif
}
void *kit_alloc_words(size_t bytes) { return kit_alloc_words2(bytes, 0); }

/* harness-side builder: the size is a concrete number, no case split needed */
sexp kit_alloc_tagged(size_t bytes, sexp_uint_t tag) {
  size_t n = (bytes + sizeof(sexp_uint_t) - 1) / sizeof(sexp_uint_t);
#ifdef KIT_NATIVE
  sexp res = (sexp) calloc(bytes ? bytes : 1, 1);
#else
  sexp res = (sexp) kit_typed_object(bytes, tag);
  if (!res) res = (sexp) (kit_numeric_tag(tag) ? kit_alloc_in(n) : kit_alloc_n(n));
#endif
  sexp_pointer_tag(res) = tag;
  return res;
}

#ifndef KIT_REAL_GC
/* the only caller of the bare allocator in the tree is sexp_make_bytes_op (via sexp_alloc_atomic):
   give it the byte-exact bytes layout; anything else falls back to generic words */
#ifdef KIT_GC_MODEL
void kit_gc_point(sexp ctx); void kit_gc_track(sexp x);
#endif
void *sexp_alloc(sexp ctx, size_t size) {
  void *res = 0;
#ifdef KIT_GC_MODEL
  kit_gc_point(ctx);
#endif
#ifndef KIT_NATIVE
  res = kit_typed_object(size, SEXP_BYTES);
#endif
  if (!res) res = kit_alloc_words(size);
#ifdef KIT_GC_MODEL
  kit_gc_track((sexp)res);
#endif
  return res;
}
#endif

#ifdef KIT_GC_MODEL
/* C02(B): "a collection may happen at every allocation".  Sound under-approximation of the real collector:
   at each allocation point pick one tracked live object nondeterministically and free() it iff nothing
   can reach it in one step - no registered root (every *saves->var of the context, every harness root)
   and no slot of another live tracked object (slots per the real type-layout row) holds it.  An object
   with in-degree 0 is certainly unreachable, so nothing the real collector keeps is ever freed; an object
   held only in an unregistered C local has in-degree 0 exactly when it matters, and any later use is a
   "deallocated dynamic object" failure.  Which object and whether to collect are free at every
   allocation: the collection schedule is a symbolic variable. */
#ifndef KIT_GC_MAX
#define KIT_GC_MAX 10
#endif
sexp kit_gc_obj[KIT_GC_MAX]; _Bool kit_gc_dead[KIT_GC_MAX]; int kit_gc_n, kit_gc_collections;
sexp kit_gc_roots[8]; int kit_gc_root_slots[8]; int kit_gc_nroots;
void kit_gc_root(sexp x) { kit_gc_root_slots[kit_gc_nroots] = 0; kit_gc_roots[kit_gc_nroots++] = x; }
/* a rooted harness-built record whose first n slots are references (they keep their referents alive) */
void kit_gc_root_record(sexp x, int n) { kit_gc_root_slots[kit_gc_nroots] = n; kit_gc_roots[kit_gc_nroots++] = x; }
void kit_gc_track(sexp x) {
  __CPROVER_assert(kit_gc_n < KIT_GC_MAX, "PROP number of allocations within the harness bound KIT_GC_MAX");
  __CPROVER_assume(kit_gc_n < KIT_GC_MAX);
  kit_gc_obj[kit_gc_n] = x; kit_gc_dead[kit_gc_n] = 0; kit_gc_n++;
}
static _Bool kit_gc_referenced(sexp ctx, int v) {
  sexp x = kit_gc_obj[v];
  for (int r = 0; r < kit_gc_nroots; r++) {
    if (kit_gc_roots[r] == x) return 1;
    for (int k = 0; k < 4; k++) { if (k >= kit_gc_root_slots[r]) break; if (sexp_slot_ref(kit_gc_roots[r], k) == x) return 1; }
  }
  struct sexp_gc_var_t *s = sexp_context_saves(ctx);
  for (int k = 0; k < 12; k++) { if (!s) break; if (s->var && *(s->var) == x) return 1; s = s->next; }
  for (int w = 0; w < kit_gc_n; w++) {
    if (w == v || kit_gc_dead[w]) continue;
    sexp o = kit_gc_obj[w];
    sexp t = sexp_object_type(ctx, o);
    sexp_sint_t ns = sexp_type_num_slots_of_object(t, o);
    sexp *p = (sexp *)((char *)o + sexp_type_field_base(t));
    for (sexp_sint_t k = 0; k < 6; k++) { if (k >= ns) break; if (p[k] == x) return 1; }
  }
  return 0;
}
void kit_gc_point(sexp ctx) {
  if (kit_gc_n == 0 || !nondet_bool()) return;
  int v = nondet_int();
  __CPROVER_assume(v >= 0 && v < kit_gc_n);
  if (kit_gc_dead[v]) return;
  if (kit_gc_referenced(ctx, v)) return;
  kit_gc_dead[v] = 1; kit_gc_collections++;
#ifndef KIT_NATIVE
  free(kit_gc_obj[v]);
#else
  free(kit_gc_obj[v]);
#endif
}
#define KIT_GC_POINT(ctx) kit_gc_point(ctx)
#define KIT_GC_TRACK(x) kit_gc_track(x)
#else
#define KIT_GC_POINT(ctx)
#define KIT_GC_TRACK(x)
#endif

/* the five-line tag-setting wrapper of sexp.c; modelled here in every harness so that the payload
   flavour can follow the tag (the real body is removed with goto-instrument when sexp.c is linked) */
sexp sexp_alloc_tagged_aux(sexp ctx, size_t size, sexp_uint_t tag) {
  KIT_GC_POINT(ctx);
#ifdef KIT_NATIVE
  sexp res = (sexp) calloc(size ? size : 1, 1);
#else
  sexp res = (sexp) kit_typed_object(size, tag);
  if (!res) res = (sexp) kit_alloc_words2(size, kit_numeric_tag(tag));
#endif
  sexp_pointer_tag(res) = tag;
  KIT_GC_TRACK(res);
  return res;
}
#ifndef KIT_REAL_SEXP

#include "exc_models.c"
sexp sexp_make_flonum(sexp ctx, double f) {
  sexp x = kit_alloc_tagged(sexp_sizeof(flonum), SEXP_FLONUM);
  sexp_flonum_value(x) = f;
  return x;
}
sexp sexp_cons_op(sexp ctx, sexp self, sexp_sint_t n, sexp head, sexp tail) {
  sexp pair = kit_alloc_tagged(sexp_sizeof(pair), SEXP_PAIR);
  sexp_car(pair) = head;
  sexp_cdr(pair) = tail;
  sexp_pair_source(pair) = SEXP_FALSE;
  return pair;
}
#endif

/* vectors longer than the case-split range (globals, type table): dedicated typed layout */
#define KIT_BIGVEC 96
struct kit_bigvec { KIT_HDR KIT_M(vector) m; sexp tail[KIT_BIGVEC]; };
sexp kit_big_vector(sexp_uint_t n) {
  struct kit_bigvec *p = malloc(sizeof(struct kit_bigvec));
#ifndef KIT_NATIVE
  __CPROVER_assume(p != 0);
  __CPROVER_assert(n <= KIT_BIGVEC, "PROP kit_big_vector bound");
#endif
  struct kit_bigvec z = {0}; *p = z;
  sexp_pointer_tag((sexp)p) = SEXP_VECTOR;
  sexp_vector_length((sexp)p) = n;
  return (sexp) p;
}

sexp kit_ctx(void) {
  static int ready;
  if (!ready) {
    ready = 1;
    sexp ctx = kit_alloc_tagged(sexp_sizeof(context), SEXP_CONTEXT);
    sexp g = kit_big_vector(SEXP_G_NUM_GLOBALS);
    sexp_vector_length(g) = SEXP_G_NUM_GLOBALS;
#ifdef KIT_NATIVE
    for (int i = 0; i < SEXP_G_NUM_GLOBALS; i++) sexp_vector_data(g)[i] = SEXP_VOID;
#else
    __CPROVER_array_set(sexp_vector_data(g), SEXP_VOID);
#endif
    sexp_context_globals(ctx) = g;
    sexp_context_saves(ctx) = NULL;
    kit_the_ctx = ctx;
  }
  return kit_the_ctx;
}

sexp kit_bignum(int len, int sign) {
  sexp b = kit_alloc_tagged(sexp_sizeof(bignum) + len * sizeof(sexp_uint_t), SEXP_BIGNUM);
  sexp_bignum_length(b) = len;
  sexp_bignum_sign(b) = sign;
  return b;
}

sexp kit_any_bignum(int len, int canonical) {
  sexp b = kit_bignum(len, nondet_bool() ? 1 : -1);
  for (int i = 0; i < len; i++) sexp_bignum_data(b)[i] = nondet_uword();
  if (canonical) {
    __CPROVER_assume(sexp_bignum_data(b)[len-1] != 0);
    if (len == 1) {
      /* must not fit a fixnum */
      sexp_uint_t w = sexp_bignum_data(b)[0];
      if (sexp_bignum_sign(b) > 0) __CPROVER_assume(w > (sexp_uint_t)SEXP_MAX_FIXNUM);
      else __CPROVER_assume(w > (sexp_uint_t)SEXP_MAX_FIXNUM + 1);
    }
  }
  return b;
}

sexp kit_any_fixnum(void) {
  sexp_sint_t v = nondet_sword();
  __CPROVER_assume(v >= SEXP_MIN_FIXNUM && v <= SEXP_MAX_FIXNUM);
  return sexp_make_fixnum(v);
}
