/* Environment for leaf harnesses that do NOT link the real sexp.c / gc.c:
   - sexp_alloc / sexp_alloc_tagged_aux: exact-size fresh blocks (R2, R3)
   - exception constructors: small model (fresh exception object carrying irritants)
   Listed in every evidence file that uses it. */
#include "kit.h"

int kit_exceptions_made;
sexp kit_the_ctx;

#ifndef KIT_MAX_WORDS
#define KIT_MAX_WORDS 24
#endif
static void *kit_alloc_n(size_t n) {
#ifdef KIT_NATIVE
  return calloc(n ? n : 1, sizeof(sexp_uint_t));
#else
  sexp_uint_t *p = malloc(n * sizeof(sexp_uint_t));
  __CPROVER_assume(p != 0);
  __CPROVER_array_set(p, (sexp_uint_t)0);
  return p;
#endif
}
#define KIT_CASE(k) case k: return kit_alloc_n(k);
void *kit_alloc_words(size_t bytes) {
  size_t n = (bytes + sizeof(sexp_uint_t) - 1) / sizeof(sexp_uint_t);
#ifdef KIT_NATIVE
  return kit_alloc_n(n);
#else
  /* the size is case-split so that every object has a concrete size even when the requested
     size is symbolic (symbolic-size objects exhaust memory in the back end); a request above
     the harness bound is reported, never silently cut */
  __CPROVER_assert(n <= KIT_MAX_WORDS, "PROP allocation request within the harness bound KIT_MAX_WORDS");
  __CPROVER_assume(n <= KIT_MAX_WORDS);
  switch (n) {
    KIT_CASE(0) KIT_CASE(1) KIT_CASE(2) KIT_CASE(3) KIT_CASE(4) KIT_CASE(5) KIT_CASE(6) KIT_CASE(7)
    KIT_CASE(8) KIT_CASE(9) KIT_CASE(10) KIT_CASE(11) KIT_CASE(12) KIT_CASE(13) KIT_CASE(14) KIT_CASE(15)
    KIT_CASE(16) KIT_CASE(17) KIT_CASE(18) KIT_CASE(19) KIT_CASE(20) KIT_CASE(21) KIT_CASE(22) KIT_CASE(23)
    KIT_CASE(24)
#if KIT_MAX_WORDS > 24
    default: return kit_alloc_n(KIT_MAX_WORDS);   /* over-sized block: exact bounds not enforced above 24 words */
#endif
  }
  return kit_alloc_n(KIT_MAX_WORDS);
#endif
}

sexp kit_alloc_tagged(size_t bytes, sexp_uint_t tag) {
  sexp res = (sexp) kit_alloc_words(bytes);
  sexp_pointer_tag(res) = tag;
  return res;
}

#ifndef KIT_REAL_GC
void *sexp_alloc(sexp ctx, size_t size) { return kit_alloc_words(size); }
#endif

#ifndef KIT_REAL_SEXP
sexp sexp_alloc_tagged_aux(sexp ctx, size_t size, sexp_uint_t tag) {
  return kit_alloc_tagged(size, tag);
}

static sexp kit_exception(sexp ctx, sexp self, sexp irritants) {
  sexp e = kit_alloc_tagged(sexp_sizeof(exception), SEXP_EXCEPTION);
  sexp_exception_kind(e) = SEXP_FALSE;
  sexp_exception_message(e) = SEXP_FALSE;
  sexp_exception_irritants(e) = irritants;
  sexp_exception_procedure(e) = self;
  sexp_exception_source(e) = SEXP_FALSE;
  sexp_exception_stack_trace(e) = SEXP_FALSE;
  kit_exceptions_made++;
  return e;
}
sexp sexp_type_exception(sexp ctx, sexp self, sexp_uint_t type_id, sexp x) {
  return kit_exception(ctx, self, x);
}
sexp sexp_xtype_exception(sexp ctx, sexp self, const char *msg, sexp x) {
  return kit_exception(ctx, self, x);
}
sexp sexp_range_exception(sexp ctx, sexp obj, sexp start, sexp end) {
  return kit_exception(ctx, SEXP_FALSE, obj);
}
sexp sexp_user_exception(sexp ctx, sexp self, const char *msg, sexp x) {
  return kit_exception(ctx, self, x);
}
sexp sexp_user_exception_ls(sexp ctx, sexp self, const char *msg, int n, ...) {
  return kit_exception(ctx, self, SEXP_NULL);
}
sexp sexp_make_flonum(sexp ctx, double f) {
  sexp x = kit_alloc_tagged(sexp_sizeof(flonum), SEXP_FLONUM);
  sexp_flonum_value(x) = f;
  return x;
}
sexp sexp_cons_op(sexp ctx, sexp self, sexp_sint_t n, sexp head, sexp tail) {
  sexp pair = kit_alloc_tagged(sexp_sizeof(pair), SEXP_PAIR);
  sexp_car(pair) = head;
  sexp_cdr(pair) = tail;
  sexp_pair_source(pair) = SEXP_FALSE;
  return pair;
}
#endif

sexp kit_ctx(void) {
  if (!kit_the_ctx) {
    sexp ctx = (sexp) kit_alloc_n((sexp_sizeof(context) + 7) / 8);
    sexp_pointer_tag(ctx) = SEXP_CONTEXT;
    sexp g = (sexp) kit_alloc_n((sexp_sizeof(vector) + SEXP_G_NUM_GLOBALS * sizeof(sexp) + 7) / 8);
    sexp_pointer_tag(g) = SEXP_VECTOR;
    sexp_vector_length(g) = SEXP_G_NUM_GLOBALS;
#ifdef KIT_NATIVE
    for (int i = 0; i < SEXP_G_NUM_GLOBALS; i++) sexp_vector_data(g)[i] = SEXP_VOID;
#else
    __CPROVER_array_set(sexp_vector_data(g), SEXP_VOID);
#endif
    sexp_context_globals(ctx) = g;
    sexp_context_saves(ctx) = NULL;
    kit_the_ctx = ctx;
  }
  return kit_the_ctx;
}

sexp kit_bignum(int len, int sign) {
  sexp b = kit_alloc_tagged(sexp_sizeof(bignum) + len * sizeof(sexp_uint_t), SEXP_BIGNUM);
  sexp_bignum_length(b) = len;
  sexp_bignum_sign(b) = sign;
  return b;
}

sexp kit_any_bignum(int len, int canonical) {
  sexp b = kit_bignum(len, nondet_bool() ? 1 : -1);
  for (int i = 0; i < len; i++) sexp_bignum_data(b)[i] = nondet_uword();
  if (canonical) {
    __CPROVER_assume(sexp_bignum_data(b)[len-1] != 0);
    if (len == 1) {
      /* must not fit a fixnum */
      sexp_uint_t w = sexp_bignum_data(b)[0];
      if (sexp_bignum_sign(b) > 0) __CPROVER_assume(w > (sexp_uint_t)SEXP_MAX_FIXNUM);
      else __CPROVER_assume(w > (sexp_uint_t)SEXP_MAX_FIXNUM + 1);
    }
  }
  return b;
}

sexp kit_any_fixnum(void) {
  sexp_sint_t v = nondet_sword();
  __CPROVER_assume(v >= SEXP_MIN_FIXNUM && v <= SEXP_MAX_FIXNUM);
  return sexp_make_fixnum(v);
}
