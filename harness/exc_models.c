/* Model of the exception constructors (DESIGN section 3): a fresh exception object that carries the
   irritant.  Used (a) by leaf harnesses that do not link sexp.c, (b) in place of the real
   constructors (whose message formatting / symbol interning is not the subject) in harnesses
   that link the real sexp.c; the real constructors have their own harness (C01 exc_*). */
#ifndef VERIF_EXC_MODELS
#define VERIF_EXC_MODELS
#include "kit.h"
static sexp kit_exception(sexp ctx, sexp self, sexp irritants) {
  sexp e = kit_alloc_tagged(sexp_sizeof(exception), SEXP_EXCEPTION);
  sexp_exception_kind(e) = SEXP_FALSE;
  sexp_exception_message(e) = SEXP_FALSE;
  sexp_exception_irritants(e) = irritants;
  sexp_exception_procedure(e) = self;
  sexp_exception_source(e) = SEXP_FALSE;
  sexp_exception_stack_trace(e) = SEXP_FALSE;
  kit_exceptions_made++;
  return e;
}
sexp sexp_type_exception(sexp ctx, sexp self, sexp_uint_t type_id, sexp x) {
  return kit_exception(ctx, self, x);
}
sexp sexp_xtype_exception(sexp ctx, sexp self, const char *msg, sexp x) {
  return kit_exception(ctx, self, x);
}
sexp sexp_range_exception(sexp ctx, sexp obj, sexp start, sexp end) {
  return kit_exception(ctx, SEXP_FALSE, obj);
}
sexp sexp_user_exception(sexp ctx, sexp self, const char *msg, sexp x) {
  return kit_exception(ctx, self, x);
}
sexp sexp_user_exception_ls(sexp ctx, sexp self, const char *msg, int n, ...) {
  return kit_exception(ctx, self, SEXP_NULL);
}
#endif
