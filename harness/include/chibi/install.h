/* same content as the CMake-generated _build/include/chibi/install.h (kept here so
   that checks do not depend on an existing /repo/_build) */
#define sexp_so_extension ".so"
#define sexp_default_module_path "/usr/local/share/chibi:/usr/local/lib/chibi:/usr/local/share/snow:/usr/local/lib/snow"
#define sexp_platform "linux"
#define sexp_architecture "x86_64"
#define sexp_version "0.11.0"
#define sexp_release_name "sodium"
