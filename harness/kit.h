/* Harness kit (R2/R3/R4): nondet sources, environment allocator, object builders.
   Compiled with -include prelude.h. */
#ifndef VERIF_KIT_H
#define VERIF_KIT_H
#include <stdlib.h>
#include <string.h>

#ifdef __cplusplus
typedef bool _Bool;
extern "C" {
#endif
#ifdef KIT_NATIVE
void kit_native_assume(int c, const char *what, int line);
void kit_native_assert(int c, const char *msg);
#define __CPROVER_assume(c) kit_native_assume(!!(c), #c, __LINE__)
#define __CPROVER_assert(c, m) kit_native_assert(!!(c), m)
#endif
void harness(void);
#ifdef __cplusplus
#define KIT_C_BEGIN extern "C" {
#define KIT_C_END }
#else
#define KIT_C_BEGIN
#define KIT_C_END
#endif
sexp_uint_t nondet_uword(void);
sexp_sint_t nondet_sword(void);
int nondet_int(void);
unsigned char nondet_uchar(void);
_Bool nondet_bool(void);
double nondet_double(void);

#ifdef WITNESS
#define KIT_WITNESS() __CPROVER_assert(0, "WITNESS reached end of harness")
#else
#define KIT_WITNESS() ((void)0)
#endif
#define KIT_ASSERT(c, msg) __CPROVER_assert((c), "PROP " msg)

/* environment allocator (R3): fresh zero-filled exact-size word block, never fails */
void *kit_alloc_words(size_t bytes);   /* real-code requests: size case-split */
void *kit_alloc_n(size_t words);        /* harness builders: concrete size, pointer-typed payload */
void *kit_alloc_in(size_t words);       /* same, integer-typed payload (numeric objects) */
sexp kit_alloc_tagged(size_t bytes, sexp_uint_t tag);
sexp kit_big_vector(sexp_uint_t n);

/* minimal context (R4) */
sexp kit_ctx(void);
extern sexp kit_the_ctx;

/* bignum with exactly `len` words */
sexp kit_bignum(int len, int sign);
/* a free bignum: all words nondet, sign nondet; if canonical!=0 the top word is non-zero
   and the value does not fit a fixnum */
sexp kit_any_bignum(int len, int canonical);
sexp kit_any_fixnum(void);

/* C02(B) collection model (env.c, -DKIT_GC_MODEL) */
void kit_gc_root(sexp x);
void kit_gc_root_record(sexp x, int nslots);
extern int kit_gc_collections, kit_gc_n;

/* exception model bookkeeping */
extern int kit_exceptions_made;

#ifdef __cplusplus
}
#endif
#endif
