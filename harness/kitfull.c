/* "Full" kit: the real sexp.c (textually included, so its static type-spec table can be
   published), a context whose type table is copied from the real _sexp_type_specs (R4), and
   exact-size builders for every object kind the harnesses pass in.  Compiled with
   -DKIT_REAL_SEXP; the exception constructors are replaced by exc_models.c through
   goto-instrument --remove-function-body (driver: remove_bodies). */
#include "sexp.c"
#include "kit.h"
#include "kitfull.h"

struct sexp_type_struct *kit_type_specs(void) { return _sexp_type_specs; }
int kit_num_core_types(void) { return SEXP_NUM_CORE_TYPES; }

static void *kit_alloc_exact(size_t bytes) {
#ifdef KIT_NATIVE
  return calloc(bytes ? bytes : 1, 1);
#else
  char *p = malloc(bytes);
  __CPROVER_assume(p != 0);
  __CPROVER_array_set(p, (char)0);
  return p;
#endif
}

struct kit_type_obj {
  struct kit_f_hdr h;
  struct sexp_type_struct type __attribute__((aligned(8)));
};
_Static_assert(offsetof(struct kit_type_obj, type) == offsetof(struct sexp_struct, value), "type object layout");
static struct kit_type_obj kit_types[SEXP_NUM_CORE_TYPES];

sexp kit_ctx_full(void) {
  sexp ctx = kit_ctx();
  static int ready;
  if (ready) return ctx;
  ready = 1;
  sexp types = kit_big_vector(SEXP_NUM_CORE_TYPES);
  for (int i = 0; i < SEXP_NUM_CORE_TYPES; i++) {
    /* typed objects (not word arrays) so that symex keeps the layout numbers constant */
    kit_types[i].h.tag = SEXP_TYPE;
    kit_types[i].type = _sexp_type_specs[i];
    kit_types[i].type.name = SEXP_FALSE;            /* names/printers only decorate messages */
    kit_types[i].type.print = SEXP_FALSE;
    kit_types[i].type.finalize_name = SEXP_FALSE;
    sexp_vector_data(types)[i] = (sexp) &kit_types[i];
  }
  sexp_global(ctx, SEXP_G_TYPES) = types;
  sexp_global(ctx, SEXP_G_NUM_TYPES) = sexp_make_fixnum(SEXP_NUM_CORE_TYPES);
  sexp_global(ctx, SEXP_G_STRICT_P) = SEXP_FALSE;
  sexp_global(ctx, SEXP_G_FOLD_CASE_P) = SEXP_FALSE;
  sexp_global(ctx, SEXP_G_NO_TAIL_CALLS_P) = SEXP_FALSE;
  sexp_global(ctx, SEXP_G_PRESERVATIVES) = SEXP_NULL;
  sexp_global(ctx, SEXP_G_WEAK_OBJECTS_PRESENT) = SEXP_FALSE;
  sexp_global(ctx, SEXP_G_FILE_DESCRIPTORS) = SEXP_FALSE;
  sexp_global(ctx, SEXP_G_NUM_FILE_DESCRIPTORS) = SEXP_ZERO;
  sexp ev = kit_alloc_tagged(sexp_sizeof(vector), SEXP_VECTOR);
  sexp_vector_length(ev) = 0;
  sexp_global(ctx, SEXP_G_EMPTY_VECTOR) = ev;
  return ctx;
}

sexp kit_bytes(sexp_uint_t len) {
  sexp b = kit_alloc_tagged(sexp_sizeof(bytes) + len + 1, SEXP_BYTES);
  sexp_bytes_length(b) = len;
  return b;
}
sexp kit_any_bytes(sexp_uint_t len) {
  sexp b = kit_bytes(len);
  for (sexp_uint_t i = 0; i < len; i++) sexp_bytes_data(b)[i] = nondet_uchar();
  return b;
}
sexp kit_string_over(sexp bytes, sexp_uint_t offset, sexp_uint_t length) {
  sexp s = kit_alloc_tagged(sexp_sizeof(string), SEXP_STRING);
  sexp_string_bytes(s) = bytes;
  sexp_string_offset(s) = offset;
  sexp_string_size(s) = length;
#if SEXP_USE_STRING_INDEX_TABLE
  sexp_string_charlens(s) = SEXP_FALSE;
#endif
  return s;
}
sexp kit_symbol(sexp_uint_t len) {
  sexp s = kit_alloc_tagged(sexp_sizeof(symbol) + len + 1, SEXP_SYMBOL);
  sexp_lsymbol_length(s) = len;
  return s;
}
sexp kit_vector(sexp_uint_t n) {
  sexp v = kit_alloc_tagged(sexp_sizeof(vector) + n * sizeof(sexp), SEXP_VECTOR);
  sexp_vector_length(v) = n;
  for (sexp_uint_t i = 0; i < n; i++) sexp_vector_data(v)[i] = SEXP_VOID;
  return v;
}
sexp kit_pair(sexp a, sexp d) {
  sexp p = kit_alloc_tagged(sexp_sizeof(pair), SEXP_PAIR);
  sexp_car(p) = a; sexp_cdr(p) = d; sexp_pair_source(p) = SEXP_FALSE;
  return p;
}
sexp kit_flonum(double d) {
  sexp f = kit_alloc_tagged(sexp_sizeof(flonum), SEXP_FLONUM);
  sexp_flonum_value(f) = d;
  return f;
}
sexp kit_any_flonum(void) { return kit_flonum(nondet_double()); }
sexp kit_type_obj_ptr(int i) { return (sexp) &kit_types[i]; }
/* exported entry points for static functions of sexp.c that have their own harness */
#if SEXP_USE_UTF8_STRINGS
int kit_decode_utf8_char(const unsigned char *s) { return sexp_decode_utf8_char(s); }
#endif
