#ifndef VERIF_KITFULL_H
#define VERIF_KITFULL_H
#ifdef __cplusplus
extern "C" {
#endif
struct sexp_type_struct *kit_type_specs(void);
int kit_num_core_types(void);
sexp kit_ctx_full(void);
sexp kit_bytes(sexp_uint_t len);
sexp kit_any_bytes(sexp_uint_t len);
sexp kit_string_over(sexp bytes, sexp_uint_t offset, sexp_uint_t length);
sexp kit_symbol(sexp_uint_t len);
sexp kit_vector(sexp_uint_t n);
sexp kit_pair(sexp a, sexp d);
sexp kit_flonum(double d);
sexp kit_any_flonum(void);
#ifdef __cplusplus
}
#endif
#endif
