/* R9/R13: word-/byte-loop models of memmove, memcpy, memset for CBMC.  The built-in models
   (variable-length char array + __CPROVER_array_copy/replace) silently copy nothing when
   the length is symbolic and the pointers point into the middle of word-array objects
   (observed: sexp_copy_bignum with a data-dependent length; the native replay disagreed).
   These loops are exact; their unwinding bound is KIT_MAX_WORDS*8 bytes / KIT_MAX_WORDS words
   and is checked by unwinding assertions like every other loop. */
#ifndef KIT_NATIVE
#include <stddef.h>
typedef unsigned long kit_word;
#define KIT_ALIGNED(p) ((__CPROVER_POINTER_OFFSET(p) & 7) == 0)

void *memmove(void *dest, const void *src, size_t n) {
  if (n == 0) return dest;
  _Bool backward = __CPROVER_same_object(dest, src) && __CPROVER_POINTER_OFFSET(dest) > __CPROVER_POINTER_OFFSET(src);
  if ((n & 7) == 0 && KIT_ALIGNED(dest) && KIT_ALIGNED(src)) {
    size_t w = n >> 3;
    kit_word *d = (kit_word *)dest; const kit_word *s = (const kit_word *)src;
    if (backward) for (size_t i = w; i > 0; i--) d[i-1] = s[i-1];
    else for (size_t i = 0; i < w; i++) d[i] = s[i];
  } else {
    char *d = (char *)dest; const char *s = (const char *)src;
    if (backward) for (size_t i = n; i > 0; i--) d[i-1] = s[i-1];
    else for (size_t i = 0; i < n; i++) d[i] = s[i];
  }
  return dest;
}

void *memcpy(void *dest, const void *src, size_t n) {
  if (n == 0) return dest;
  if ((n & 7) == 0 && KIT_ALIGNED(dest) && KIT_ALIGNED(src)) {
    size_t w = n >> 3;
    kit_word *d = (kit_word *)dest; const kit_word *s = (const kit_word *)src;
    for (size_t i = 0; i < w; i++) d[i] = s[i];
  } else {
    char *d = (char *)dest; const char *s = (const char *)src;
    for (size_t i = 0; i < n; i++) d[i] = s[i];
  }
  return dest;
}

void *memset(void *dest, int c, size_t n) {
  if (n == 0) return dest;
  if ((n & 7) == 0 && KIT_ALIGNED(dest)) {
    size_t w = n >> 3;
    kit_word v = (unsigned char)c; v |= v << 8; v |= v << 16; v |= v << 32;
    kit_word *d = (kit_word *)dest;
    for (size_t i = 0; i < w; i++) d[i] = v;
  } else {
    char *d = (char *)dest;
    for (size_t i = 0; i < n; i++) d[i] = (char)c;
  }
  return dest;
}
#endif

/* <ctype.h> of glibc expands isspace() etc. to a table lookup through __ctype_b_loc(), which has
   no body under CBMC.  Model: glibc's C-locale classification table (indices -128..255; values
   printed from this image's libc -- they are part of its ABI), as a constant initialiser so that
   lookups with a constant character fold in symex. */
#ifndef KIT_NATIVE
static const unsigned short kit_ctype_tab[384] = {
0,0,0,0,0,0,0,0,0,0,0,0,0,0,0,0,
0,0,0,0,0,0,0,0,0,0,0,0,0,0,0,0,
0,0,0,0,0,0,0,0,0,0,0,0,0,0,0,0,
0,0,0,0,0,0,0,0,0,0,0,0,0,0,0,0,
0,0,0,0,0,0,0,0,0,0,0,0,0,0,0,0,
0,0,0,0,0,0,0,0,0,0,0,0,0,0,0,0,
0,0,0,0,0,0,0,0,0,0,0,0,0,0,0,0,
0,0,0,0,0,0,0,0,0,0,0,0,0,0,0,0,
2,2,2,2,2,2,2,2,2,8195,8194,8194,8194,8194,2,2,
2,2,2,2,2,2,2,2,2,2,2,2,2,2,2,2,
24577,49156,49156,49156,49156,49156,49156,49156,49156,49156,49156,49156,49156,49156,49156,49156,
55304,55304,55304,55304,55304,55304,55304,55304,55304,55304,49156,49156,49156,49156,49156,49156,
49156,54536,54536,54536,54536,54536,54536,50440,50440,50440,50440,50440,50440,50440,50440,50440,
50440,50440,50440,50440,50440,50440,50440,50440,50440,50440,50440,49156,49156,49156,49156,49156,
49156,54792,54792,54792,54792,54792,54792,50696,50696,50696,50696,50696,50696,50696,50696,50696,
50696,50696,50696,50696,50696,50696,50696,50696,50696,50696,50696,49156,49156,49156,49156,2,
0,0,0,0,0,0,0,0,0,0,0,0,0,0,0,0,
0,0,0,0,0,0,0,0,0,0,0,0,0,0,0,0,
0,0,0,0,0,0,0,0,0,0,0,0,0,0,0,0,
0,0,0,0,0,0,0,0,0,0,0,0,0,0,0,0,
0,0,0,0,0,0,0,0,0,0,0,0,0,0,0,0,
0,0,0,0,0,0,0,0,0,0,0,0,0,0,0,0,
0,0,0,0,0,0,0,0,0,0,0,0,0,0,0,0,
0,0,0,0,0,0,0,0,0,0,0,0,0,0,0,0,
};
static const unsigned short *const kit_ctype_ptr = kit_ctype_tab + 128;
const unsigned short **__ctype_b_loc(void) { return (const unsigned short **) &kit_ctype_ptr; }
#endif
