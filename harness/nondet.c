/* nondet sources are left undefined for CBMC (free symbolic values). */
