/* R2'': kind-specific object layouts for the environment allocator.
   Every object the allocator hands out is a small struct:
       typed header (the head of struct sexp_struct, same declarations)
     + the real union member of that kind  (typeof(((sexp)0)->value.<kind>), i.e. the real field
       types at the real offsets)
     + a typed tail for the flexible part (sexp[] for vectors/stacks, words for bignums, bytes for
       bytevectors/symbols/bytecode: byte-exact size).
   Because the fields have their real types at their real offsets, the flat accessors of the
   prelude resolve to plain member reads, and symex keeps tags, lengths, layout numbers and stored
   object addresses constant (kind dispatch and loop bounds fold).  Sizes that are not symex
   constants are case-split, so every object still has a concrete size.  Kinds not listed fall
   back to a generic pointer-slot object of the requested number of words. */
#ifndef VERIF_OBJALLOC_H
#define VERIF_OBJALLOC_H

/* struct kit_f_hdr: defined in prelude.h (R14) */
#define KIT_HDR struct kit_f_hdr h;
#define KIT_M(kind) __typeof__(((sexp)0)->value.kind)

#ifndef KIT_NATIVE
#define KIT_ZNEW(T) { struct T *p = malloc(sizeof(struct T)); __CPROVER_assume(p != 0); struct T z = {0}; *p = z; return p; }
#else
#define KIT_ZNEW(T) { return calloc(1, sizeof(struct T)); }
#endif

/* ---- fixed-size kinds ---- */
#define KIT_FIXED_KINDS(X) X(pair) X(string) X(exception) X(env) X(procedure) X(ratio) X(complex) X(port) X(fileno) \
  X(lambda) X(cnd) X(ref) X(set) X(set_syn) X(seq) X(lit) X(macro) X(synclo) X(core) X(opcode) X(type) X(promise) \
  X(ephemeron) X(uvector) X(dl) X(context) X(cpointer)
#define KIT_FDEF(kind) struct kit_f_##kind { KIT_HDR KIT_M(kind) m __attribute__((aligned(8))); }; \
  static void *kit_newf_##kind(void) KIT_ZNEW(kit_f_##kind)
KIT_FIXED_KINDS(KIT_FDEF)
struct kit_f_flonum { KIT_HDR double m __attribute__((aligned(8))); };
static void *kit_newf_flonum(void) KIT_ZNEW(kit_f_flonum)
static void *kit_newf_hdr(void) KIT_ZNEW(kit_f_hdr)

/* ---- kinds with a flexible tail ---- */
#define KIT_TAILS(X, k) X(k,1) X(k,2) X(k,3) X(k,4) X(k,5) X(k,6) X(k,7) X(k,8) X(k,9) X(k,10) X(k,11) X(k,12) X(k,13) X(k,14) \
  X(k,15) X(k,16) X(k,17) X(k,18) X(k,19) X(k,20) X(k,21) X(k,22) X(k,23) X(k,24) X(k,25) X(k,26) X(k,27) X(k,28) X(k,29) \
  X(k,30) X(k,31) X(k,32) X(k,33) X(k,34) X(k,35) X(k,36) X(k,37) X(k,38) X(k,39) X(k,40) X(k,41) X(k,42) X(k,43) X(k,44) \
  X(k,45) X(k,46) X(k,47) X(k,48)
#define KIT_VDEF_vector(k, P)   struct kit_v_vector_##P   { KIT_HDR KIT_M(vector) m;   sexp tail[P]; };          static void *kit_newv_vector_##P(void)   KIT_ZNEW(kit_v_vector_##P)
#define KIT_VDEF_stack(k, P)    struct kit_v_stack_##P    { KIT_HDR KIT_M(stack) m;    sexp tail[P]; };          static void *kit_newv_stack_##P(void)    KIT_ZNEW(kit_v_stack_##P)
#define KIT_VDEF_bignum(k, P)   struct kit_v_bignum_##P   { KIT_HDR KIT_M(bignum) m;   sexp_uint_t tail[P]; };   static void *kit_newv_bignum_##P(void)   KIT_ZNEW(kit_v_bignum_##P)
#define KIT_VDEF_bytes(k, P)    struct kit_v_bytes_##P    { KIT_HDR KIT_M(bytes) m;    char tail[P]; } __attribute__((packed));  static void *kit_newv_bytes_##P(void) KIT_ZNEW(kit_v_bytes_##P)
#define KIT_VDEF_symbol(k, P)   struct kit_v_symbol_##P   { KIT_HDR KIT_M(symbol) m;   char tail[P]; } __attribute__((packed));  static void *kit_newv_symbol_##P(void) KIT_ZNEW(kit_v_symbol_##P)
#define KIT_VDEF_bytecode(k, P) struct kit_v_bytecode_##P { KIT_HDR KIT_M(bytecode) m; unsigned char tail[P]; }; static void *kit_newv_bytecode_##P(void) KIT_ZNEW(kit_v_bytecode_##P)
KIT_TAILS(KIT_VDEF_vector, vector)
KIT_TAILS(KIT_VDEF_stack, stack)
KIT_TAILS(KIT_VDEF_bignum, bignum)
KIT_TAILS(KIT_VDEF_bytes, bytes)
KIT_TAILS(KIT_VDEF_symbol, symbol)
KIT_TAILS(KIT_VDEF_bytecode, bytecode)
struct kit_v_vector_0 { KIT_HDR KIT_M(vector) m; };     static void *kit_newv_vector_0(void) KIT_ZNEW(kit_v_vector_0)
struct kit_v_stack_0 { KIT_HDR KIT_M(stack) m; };       static void *kit_newv_stack_0(void) KIT_ZNEW(kit_v_stack_0)
struct kit_v_bignum_0 { KIT_HDR KIT_M(bignum) m; };     static void *kit_newv_bignum_0(void) KIT_ZNEW(kit_v_bignum_0)
struct kit_v_bytes_0 { KIT_HDR KIT_M(bytes) m; };       static void *kit_newv_bytes_0(void) KIT_ZNEW(kit_v_bytes_0)
struct kit_v_symbol_0 { KIT_HDR KIT_M(symbol) m; };     static void *kit_newv_symbol_0(void) KIT_ZNEW(kit_v_symbol_0)
struct kit_v_bytecode_0 { KIT_HDR KIT_M(bytecode) m; }; static void *kit_newv_bytecode_0(void) KIT_ZNEW(kit_v_bytecode_0)

/* per-kind bound on the flexible tail of objects requested with a size that is not a symex
   constant (each admitted size is one more candidate object in the case split); a request above
   the bound is reported by an assertion, never silently cut.  Overridable with -D per query. */
#ifndef KIT_MAX_vector
#define KIT_MAX_vector 8
#endif
#ifndef KIT_MAX_stack
#define KIT_MAX_stack 48
#endif
#ifndef KIT_MAX_bignum
#define KIT_MAX_bignum 6
#endif
#ifndef KIT_MAX_bytes
#define KIT_MAX_bytes 24
#endif
#ifndef KIT_MAX_symbol
#define KIT_MAX_symbol 24
#endif
#ifndef KIT_MAX_bytecode
#define KIT_MAX_bytecode 48
#endif
/* one large stack layout (96 words) for harnesses that need head-room above the 64-word stack check margin */
struct kit_v_stack_96 { KIT_HDR KIT_M(stack) m; sexp tail[96]; };
static void *kit_newv_stack_96(void) KIT_ZNEW(kit_v_stack_96)
#define KIT_VCASE(k, P) case P: if (P <= KIT_MAX_##k) return kit_newv_##k##_##P(); break;
#ifdef KIT_NATIVE
#define KIT_BOUND(k, P)
#else
#define KIT_BOUND(k, P) __CPROVER_assert((P) <= KIT_MAX_##k, "PROP allocation request within the harness bound KIT_MAX_" #k); __CPROVER_assume((P) <= KIT_MAX_##k);
#endif
#define KIT_VSWITCH(k) static void *kit_newv_##k(size_t P) { KIT_BOUND(k, P) switch (P) { case 0: return kit_newv_##k##_0(); KIT_TAILS(KIT_VCASE, k) default: break; } return 0; }
KIT_VSWITCH(vector)
KIT_VSWITCH(stack)
KIT_VSWITCH(bignum)
KIT_VSWITCH(bytes)
KIT_VSWITCH(symbol)
KIT_VSWITCH(bytecode)
#define KIT_MAX_TAIL 48

_Static_assert(sizeof(struct kit_f_pair) == sexp_sizeof(pair), "pair layout");
_Static_assert(sizeof(struct kit_f_string) == sexp_sizeof(string), "string layout");
_Static_assert(sizeof(struct kit_f_context) == sexp_sizeof(context), "context layout");
_Static_assert(sizeof(struct kit_f_procedure) == sexp_sizeof(procedure), "procedure layout");
_Static_assert(sizeof(struct kit_f_type) == sexp_sizeof(type), "type layout");
_Static_assert(sizeof(struct kit_v_vector_3) == sexp_sizeof(vector) + 3 * sizeof(sexp), "vector layout");
_Static_assert(sizeof(struct kit_v_bignum_2) == sexp_sizeof(bignum) + 2 * sizeof(sexp_uint_t), "bignum layout");
_Static_assert(offsetof(struct kit_v_bytes_5, tail) == sexp_sizeof(bytes), "bytes layout");
_Static_assert(offsetof(struct kit_f_pair, m) == offsetof(struct sexp_struct, value), "header is one word");

/* kind-specific object for (size, tag); NULL if this (kind, size) has no typed layout */
static void *kit_typed_object(size_t size, sexp_uint_t tag) {
  switch (tag) {
#define KIT_FCASE(kind, TAG) case TAG: if (size == sexp_sizeof(kind)) return kit_newf_##kind(); break;
  KIT_FCASE(pair, SEXP_PAIR) KIT_FCASE(string, SEXP_STRING) KIT_FCASE(exception, SEXP_EXCEPTION) KIT_FCASE(env, SEXP_ENV)
  KIT_FCASE(procedure, SEXP_PROCEDURE) KIT_FCASE(ratio, SEXP_RATIO) KIT_FCASE(complex, SEXP_COMPLEX)
  KIT_FCASE(port, SEXP_IPORT) KIT_FCASE(port, SEXP_OPORT) KIT_FCASE(fileno, SEXP_FILENO) KIT_FCASE(lambda, SEXP_LAMBDA)
  KIT_FCASE(cnd, SEXP_CND) KIT_FCASE(ref, SEXP_REF) KIT_FCASE(set, SEXP_SET) KIT_FCASE(set_syn, SEXP_SET_SYN)
  KIT_FCASE(seq, SEXP_SEQ) KIT_FCASE(lit, SEXP_LIT) KIT_FCASE(macro, SEXP_MACRO) KIT_FCASE(synclo, SEXP_SYNCLO)
  KIT_FCASE(core, SEXP_CORE) KIT_FCASE(opcode, SEXP_OPCODE) KIT_FCASE(type, SEXP_TYPE) KIT_FCASE(promise, SEXP_PROMISE)
  KIT_FCASE(ephemeron, SEXP_EPHEMERON) KIT_FCASE(uvector, SEXP_UNIFORM_VECTOR) KIT_FCASE(dl, SEXP_DL)
  KIT_FCASE(context, SEXP_CONTEXT) KIT_FCASE(cpointer, SEXP_CPOINTER)
  case SEXP_FLONUM: if (size == sexp_sizeof(flonum)) return kit_newf_flonum(); break;
  case SEXP_VECTOR:
    if (size >= sexp_sizeof(vector) && ((size - sexp_sizeof(vector)) % sizeof(sexp)) == 0)
      return kit_newv_vector((size - sexp_sizeof(vector)) / sizeof(sexp));
    break;
  case SEXP_STACK:
    if (size == sexp_sizeof(stack) + 96 * sizeof(sexp)) return kit_newv_stack_96();
    if (size >= sexp_sizeof(stack) && ((size - sexp_sizeof(stack)) % sizeof(sexp)) == 0)
      return kit_newv_stack((size - sexp_sizeof(stack)) / sizeof(sexp));
    break;
#ifndef KIT_FLAT_NUMERIC   /* -DKIT_FLAT_NUMERIC: bignums as plain integer word arrays (faster for pure word arithmetic) */
  case SEXP_BIGNUM:
    if (size >= sexp_sizeof(bignum) && ((size - sexp_sizeof(bignum)) % sizeof(sexp_uint_t)) == 0)
      return kit_newv_bignum((size - sexp_sizeof(bignum)) / sizeof(sexp_uint_t));
    break;
#endif
  case SEXP_BYTES: if (size >= sexp_sizeof(bytes)) return kit_newv_bytes(size - sexp_sizeof(bytes)); break;
  case SEXP_SYMBOL: if (size >= sexp_sizeof(symbol)) return kit_newv_symbol(size - sexp_sizeof(symbol)); break;
  case SEXP_BYTECODE: if (size >= sexp_sizeof(bytecode)) return kit_newv_bytecode(size - sexp_sizeof(bytecode)); break;
  default: break;
  }
  return 0;
}
#endif
