/* R1: flat field access.  Force-included (-include) before every real translation
   unit and every harness.  Same addresses and types as the original macros, but the
   access expression never mentions the 24 KB union, so CBMC's pointer checks look at
   exactly the bytes of the accessed member. */
#ifndef VERIF_PRELUDE_H
#define VERIF_PRELUDE_H
#include <stddef.h>
/* R15: cbmc 6.11.0 silently ignores `__attribute__((mode(TI)))` -- bignum.h's 128-bit
   `sexp_luint_t`/`sexp_lsint_t` would be 32-bit ints -- but honours `mode(__TI__)`.  Nothing in
   the tree uses the identifier TI otherwise; the static assertion below keeps this honest. */
#define TI __TI__
#include <chibi/eval.h>
#if SEXP_USE_BIGNUMS
#include <chibi/bignum.h>
#if SEXP_64_BIT && !SEXP_USE_CUSTOM_LONG_LONGS
_Static_assert(sizeof(sexp_luint_t) == 16 && sizeof(sexp_lsint_t) == 16, "R15: 128-bit helper types must be 128 bits wide in the encoding");
#endif
#endif

#define VERIF_FLAT(x, path) \
  (*(__typeof__(((sexp)0)->value.path)*)((char*)(x)+offsetof(struct sexp_struct, value.path)))

#undef sexp_field
#undef sexp_pred_field
#undef sexp_cpointer_field
#define sexp_field(x, type, id, field)        VERIF_FLAT(x, type.field)
#define sexp_pred_field(x, type, pred, field) VERIF_FLAT(x, type.field)
#define sexp_cpointer_field(x, field)         VERIF_FLAT(x, cpointer.field)

#undef sexp_flonum_value
#undef sexp_flonum_value_set
#undef sexp_flonum_bits
#define sexp_flonum_value(f)        VERIF_FLAT(f, flonum)
#define sexp_flonum_value_set(f, x) (VERIF_FLAT(f, flonum) = x)
#define sexp_flonum_bits(f)         ((char*)(f)+offsetof(struct sexp_struct, value.flonum_bits))
#undef sexp_ref_cell
#define sexp_ref_cell(x)            VERIF_FLAT(x, ref.cell)
#undef sexp_context_heap
#define sexp_context_heap(ctx)      VERIF_FLAT(ctx, context.heap)

/* R11: cbmc 6.11.0's simplifier rewrites `(signed)pointer < 0`, `>= 0`, `<= 0`, `> 0` as if the
   cast were unsigned (e.g. `(long)p >= 0` becomes `p == NULL`; with --no-simplify the verdicts
   are right).  The two header macros that test the sign of a tagged word this way are
   re-expressed through the top bit; the two .c sites are rewritten the same way by the driver
   (lib/vf.py: SIGN_RE), and lib/selftest checks on every setup that this form is decided
   correctly by the installed cbmc. */
#define VERIF_NEGP(a) ((((sexp_uint_t)(a)) >> (sizeof(sexp_uint_t)*8-1)) != 0)
#undef sexp_fx_abs
#undef sexp_unbox_fx_abs
#define sexp_fx_abs(a)       (VERIF_NEGP(a) ? sexp_fx_neg(a) : a)
#define sexp_unbox_fx_abs(a) (VERIF_NEGP(a) ? -sexp_unbox_fixnum(a) : sexp_unbox_fixnum(a))

/* R12: kind tests fold for heap objects.  In CBMC's pointer encoding the integer value of a
   pointer is object-id || offset, so the low (tag) bits of a pointer are the low bits of its
   offset; for a pointer into a real object the offset is a symex constant while the integer
   cast is not.  Re-expressing the immediate-tag predicates through the offset is therefore
   an equivalence in the bit-level model, and it lets symex prune the "treat this bignum
   pointer as a fixnum" branches instead of exploring them.  Immediates (integer-cast
   pointers) take the original expression. */
#ifndef KIT_NATIVE
/* the tag bits (low 8 bits at most) of any pointer-typed word are the low bits of its offset part:
   CBMC's pointer bit-vector is object-id(12 bits) || offset(52 bits), and an integer cast to a
   pointer keeps its bits.  pointer_offset() folds for addresses of objects, for if-then-else
   mixes of such addresses, and for integer constants. */
static inline sexp_uint_t verif_tagword(const void *x) {
  return (sexp_uint_t)__CPROVER_POINTER_OFFSET(x);
}
/* equality with an immediate constant (#f, (), ...): the simplifier does not decide
   `address == (sexp)constant` nor `(sexp)c1 == (sexp)c2`, but it decides the offsets; the second
   conjunct keeps the expression an exact equivalence of `x == k`. */
static inline _Bool verif_imm_eq(const void *x, const void *k) {
  return __CPROVER_POINTER_OFFSET(x) == __CPROVER_POINTER_OFFSET(k) && (sexp_uint_t)x == (sexp_uint_t)k;
}
#undef sexp_truep
#undef sexp_not
#undef sexp_nullp
#undef sexp_booleanp
#define sexp_truep(x)    (!verif_imm_eq((const void*)(x), (const void*)SEXP_FALSE))
#define sexp_not(x)      (verif_imm_eq((const void*)(x), (const void*)SEXP_FALSE))
#define sexp_nullp(x)    (verif_imm_eq((const void*)(x), (const void*)SEXP_NULL))
#define sexp_booleanp(x) (verif_imm_eq((const void*)(x), (const void*)SEXP_TRUE) || verif_imm_eq((const void*)(x), (const void*)SEXP_FALSE))
#undef sexp_pointerp
#undef sexp_fixnump
#undef sexp_isymbolp
#undef sexp_charp
#undef sexp_reader_labelp
#define sexp_pointerp(x) ((verif_tagword((const void*)(x)) & SEXP_POINTER_MASK) == SEXP_POINTER_TAG)
#define sexp_fixnump(x)  ((verif_tagword((const void*)(x)) & SEXP_FIXNUM_MASK) == SEXP_FIXNUM_TAG)
#define sexp_isymbolp(x) ((verif_tagword((const void*)(x)) & SEXP_IMMEDIATE_MASK) == SEXP_ISYMBOL_TAG)
#define sexp_charp(x)    ((verif_tagword((const void*)(x)) & SEXP_EXTENDED_MASK) == SEXP_CHAR_TAG)
#define sexp_reader_labelp(x) ((verif_tagword((const void*)(x)) & SEXP_EXTENDED_MASK) == SEXP_READER_LABEL_TAG)
#if SEXP_USE_DISJOINT_STRING_CURSORS
#undef sexp_string_cursorp
#define sexp_string_cursorp(x) ((verif_tagword((const void*)(x)) & SEXP_STRING_CURSOR_MASK) == SEXP_STRING_CURSOR_TAG)
#endif
#endif

/* R14: header accesses go through a struct that holds only the header (the same declarations as the
   head of struct sexp_struct, hence the same layout).  Every kit object starts with this struct, so
   `x->tag`, `x->markedp` and the flag bit-fields become exact member accesses.  Accessed through
   struct sexp_struct they are byte-level updates of the whole object for cbmc (observed: after one
   bit-field store no field of the object stayed a symex constant, and a bit stored through a pointer
   into the middle of an aggregate was read back inconsistently). */
struct kit_f_hdr { sexp_tag_t tag; char markedp; unsigned int immutablep:1; unsigned int freep:1;
  unsigned int brokenp:1; unsigned int syntacticp:1; unsigned int copyonwritep:1; };
_Static_assert(sizeof(struct kit_f_hdr) == offsetof(struct sexp_struct, value), "header is one word");
_Static_assert(offsetof(struct kit_f_hdr, markedp) == offsetof(struct sexp_struct, markedp), "mark byte offset");
#ifndef KIT_NATIVE
#define VERIF_HDR(x) ((struct kit_f_hdr*)(x))
#undef sexp_pointer_tag
#undef sexp_markedp
#undef sexp_immutablep
#undef sexp_mutablep
#undef sexp_freep
#undef sexp_brokenp
#undef sexp_copy_on_writep
#define sexp_pointer_tag(x)    (VERIF_HDR(x)->tag)
#define sexp_markedp(x)        (VERIF_HDR(x)->markedp)
#define sexp_immutablep(x)     (VERIF_HDR(x)->immutablep)
#define sexp_mutablep(x)       (!VERIF_HDR(x)->immutablep)
#define sexp_freep(x)          (VERIF_HDR(x)->freep)
#define sexp_brokenp(x)        (VERIF_HDR(x)->brokenp)
#define sexp_copy_on_writep(x) (VERIF_HDR(x)->copyonwritep)
#undef sexp_env_cell_syntactic_p
#undef sexp_env_syntactic_p
#define sexp_env_cell_syntactic_p(x) (VERIF_HDR(x)->syntacticp)
#define sexp_env_syntactic_p(x)      (VERIF_HDR(x)->syntacticp)
#endif

/* header fields: tag and the bit-field word */
#define VERIF_HDR_BYTES (offsetof(struct sexp_struct, value))
#endif
