/* Native replay runtime: nondet_* return the values recorded in the CBMC trace, in order;
   assume/assert become run-time checks. */
#include <stdio.h>
#include <stdlib.h>
#include <string.h>
#include <stdint.h>
extern const int kit_replay_n;
extern const char *kit_replay_kind[];
extern const uint64_t kit_replay_val[];
static int pos;
static uint64_t next_val(const char *kind) {
  if (pos >= kit_replay_n) {
    /* the trace ends at the first failing assertion: if the native run gets further, that assertion held natively */
    fprintf(stderr, "REPLAY: past the end of the recorded inputs (wanted %s): the assertion that failed under cbmc held natively\n", kind);
    exit(0);
  }
  if (strcmp(kit_replay_kind[pos], kind) != 0) {
    fprintf(stderr, "REPLAY: input %d kind mismatch: recorded %s, wanted %s\n", pos, kit_replay_kind[pos], kind);
    exit(77);
  }
  return kit_replay_val[pos++];
}
unsigned long nondet_uword(void) { return next_val("uword"); }
long nondet_sword(void) { return (long) next_val("sword"); }
int nondet_int(void) { return (int) next_val("int"); }
unsigned char nondet_uchar(void) { return (unsigned char) next_val("uchar"); }
_Bool nondet_bool(void) { return next_val("bool") != 0; }
double nondet_double(void) { uint64_t v = next_val("double"); double d; memcpy(&d, &v, 8); return d; }
void kit_native_assume(int c, const char *what, int line) { if (!c) { fprintf(stderr, "REPLAY: assumption false: %s (line %d)\n", what, line); exit(77); } }
void kit_native_assert(int c, const char *msg) {
  if (!c) { fprintf(stderr, "REPLAY-ASSERT-FAILED: %s\n", msg); fflush(stderr); exit(1); }
}
void harness(void);
int main(void) { harness(); fprintf(stderr, "REPLAY: harness completed, all assertions held\n"); return 0; }
