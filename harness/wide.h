/* Oracle arithmetic: wide two's-complement integers (infinite precision inside the bounds). */
#ifndef VERIF_WIDE_H
#define VERIF_WIDE_H
#ifndef WIDE_BITS
#define WIDE_BITS 320
#endif
#ifdef KIT_NATIVE
#include "wide_native.h"
#else
typedef signed __CPROVER_bitvector[WIDE_BITS] wide;
typedef unsigned __CPROVER_bitvector[WIDE_BITS] uwide;
#endif

/* mathematical value of a fixnum or bignum (lengths up to KIT_MAXW words) */
#ifndef KIT_MAXW
#define KIT_MAXW 4
#endif
static inline wide wide_of(sexp x) {
  if (sexp_fixnump(x)) return (wide) sexp_unbox_fixnum(x);
  uwide m = 0;
  sexp_uint_t len = sexp_bignum_length(x);
  for (int i = KIT_MAXW - 1; i >= 0; i--)
    if ((sexp_uint_t)i < len) m = (m << 64) | (uwide) sexp_bignum_data(x)[i];
  return sexp_bignum_sign(x) < 0 ? -(wide)m : (wide)m;
}
/* canonical exact integer: fixnum, or bignum (sign ±1) whose value does not fit a fixnum */
static inline int wide_canonical(sexp x) {
  if (sexp_fixnump(x)) return 1;
  if (!sexp_bignump(x)) return 0;
  if (sexp_bignum_sign(x) != 1 && sexp_bignum_sign(x) != -1) return 0;
  wide v = wide_of(x);
  return v > (wide)SEXP_MAX_FIXNUM || v < (wide)SEXP_MIN_FIXNUM;
}
#endif
