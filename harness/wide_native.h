// Native (replay) implementation of the harness oracle type `wide`/`uwide`:
// fixed 320-bit two's-complement integers with the operator set the harnesses use.
// Only compiled by clang++ for counterexample replay; CBMC uses __CPROVER_bitvector.
#pragma once
#include <stdint.h>
#ifndef WIDE_BITS
#define WIDE_BITS 320
#endif
template<bool S> struct WideT {
  static const int N = (WIDE_BITS + 63) / 64;
  uint64_t w[N];
  WideT() { for (int i = 0; i < N; i++) w[i] = 0; }
  WideT(long long v) { w[0] = (uint64_t)v; for (int i = 1; i < N; i++) w[i] = v < 0 ? ~0ull : 0; }
  WideT(long v) : WideT((long long)v) {}
  WideT(int v) : WideT((long long)v) {}
  WideT(unsigned long long v) { w[0] = v; for (int i = 1; i < N; i++) w[i] = 0; }
  WideT(unsigned long v) : WideT((unsigned long long)v) {}
  WideT(unsigned v) : WideT((unsigned long long)v) {}
  WideT(unsigned __int128 v) { w[0] = (uint64_t)v; w[1] = (uint64_t)(v >> 64); for (int i = 2; i < N; i++) w[i] = 0; }
  WideT(__int128 v) { w[0] = (uint64_t)v; w[1] = (uint64_t)((unsigned __int128)v >> 64); for (int i = 2; i < N; i++) w[i] = v < 0 ? ~0ull : 0; }
  template<bool T> explicit WideT(const WideT<T>& o) { for (int i = 0; i < N; i++) w[i] = o.w[i]; }
  bool neg() const { return S && (w[N-1] >> 63); }
  explicit operator long() const { return (long)w[0]; }
  explicit operator unsigned long() const { return w[0]; }
  explicit operator int() const { return (int)w[0]; }
  explicit operator bool() const { for (int i = 0; i < N; i++) if (w[i]) return true; return false; }
  WideT operator~() const { WideT r; for (int i = 0; i < N; i++) r.w[i] = ~w[i]; return r; }
  WideT operator&(const WideT& o) const { WideT r; for (int i = 0; i < N; i++) r.w[i] = w[i] & o.w[i]; return r; }
  WideT operator|(const WideT& o) const { WideT r; for (int i = 0; i < N; i++) r.w[i] = w[i] | o.w[i]; return r; }
  WideT operator^(const WideT& o) const { WideT r; for (int i = 0; i < N; i++) r.w[i] = w[i] ^ o.w[i]; return r; }
  WideT operator+(const WideT& o) const { WideT r; unsigned __int128 c = 0; for (int i = 0; i < N; i++) { c += (unsigned __int128)w[i] + o.w[i]; r.w[i] = (uint64_t)c; c >>= 64; } return r; }
  WideT operator-() const { return ~(*this) + WideT(1); }
  WideT operator-(const WideT& o) const { return *this + (-o); }
  WideT operator*(const WideT& o) const { WideT r; for (int i = 0; i < N; i++) { unsigned __int128 c = 0; for (int j = 0; i + j < N; j++) { c += (unsigned __int128)w[i] * o.w[j] + r.w[i+j]; r.w[i+j] = (uint64_t)c; c >>= 64; } } return r; }
  WideT operator<<(int s) const { WideT r; if (s >= 64*N) return r; int ws = s / 64, bs = s % 64; for (int i = N-1; i >= ws; i--) { r.w[i] = w[i-ws] << bs; if (bs && i-ws-1 >= 0) r.w[i] |= w[i-ws-1] >> (64-bs); } return r; }
  WideT operator>>(int s) const { uint64_t fill = neg() ? ~0ull : 0; WideT r; if (s >= 64*N) { for (int i = 0; i < N; i++) r.w[i] = fill; return r; } int ws = s / 64, bs = s % 64; for (int i = 0; i < N; i++) { uint64_t lo = i+ws < N ? w[i+ws] : fill, hi = i+ws+1 < N ? w[i+ws+1] : fill; r.w[i] = bs ? (lo >> bs) | (hi << (64-bs)) : lo; } return r; }
  WideT& operator+=(const WideT& o) { *this = *this + o; return *this; }
  WideT& operator<<=(int s) { *this = *this << s; return *this; }
  bool operator==(const WideT& o) const { for (int i = 0; i < N; i++) if (w[i] != o.w[i]) return false; return true; }
  bool operator!=(const WideT& o) const { return !(*this == o); }
  bool operator<(const WideT& o) const { if (neg() != o.neg()) return neg(); for (int i = N-1; i >= 0; i--) if (w[i] != o.w[i]) return w[i] < o.w[i]; return false; }
  bool operator>(const WideT& o) const { return o < *this; }
  bool operator<=(const WideT& o) const { return !(o < *this); }
  bool operator>=(const WideT& o) const { return !(*this < o); }
};
typedef WideT<true> wide;
typedef WideT<false> uwide;
