"""Counterexample replay: turn a CBMC trace into a native run of the same harness against a
native (clang, ASan+UBSan) build of the same real sources from /repo's working tree."""
import os, re, json, subprocess, hashlib

VERIF = os.path.dirname(os.path.dirname(os.path.abspath(__file__)))
HARNESS = os.path.join(VERIF, 'harness')

ND_RE = re.compile(r'^\s+return_value_nondet_(\w+?)(?:\$\d+)?=(.*?)(?: \((0x)?([0-9A-Fa-f ]+)\))?\s*$')


def extract_inputs(trace_txt):
    """sequence of (kind, hexbits) for every nondet_<kind>() call, in execution order"""
    out = []
    for line in trace_txt.splitlines():
        m = ND_RE.match(line)
        if not m:
            continue
        kind, val, hexp, bits = m.group(1), m.group(2), m.group(3), m.group(4)
        if bits is not None:
            b = bits.replace(' ', '')
            if not hexp and set(b) <= set('01') and len(b) >= 8 and len(b) % 8 == 0:
                v = int(b, 2)
            else:
                v = int(b, 16)
        else:
            if val in ('TRUE', 'FALSE'):
                v = 1 if val == 'TRUE' else 0
            else:
                mm = re.match(r'-?\d+', val)
                v = int(mm.group(0)) & ((1 << 64) - 1) if mm else 0
        out.append([kind, '0x%x' % v])
    return out


def build_and_run_replay(run, q, case, rdir):
    import vf
    inputs = case['inputs']
    src = os.path.join(rdir, 'inputs.c')
    with open(src, 'w') as f:
        f.write('/* generated from the CBMC counterexample trace */\n')
        f.write('#include <stdint.h>\n')
        f.write('const int kit_replay_n = %d;\n' % len(inputs))
        f.write('const char *kit_replay_kind[] = {%s 0};\n' % ''.join('"%s",' % k for k, _ in inputs))
        f.write('const uint64_t kit_replay_val[] = {%s 0};\n' % ''.join('%sull,' % v for _, v in inputs))
    defs = dict(q.unit_defs)
    hdefs = dict(defs); hdefs.update(q.defs)
    common = vf.inc_flags() + vf.BASE_DEFS + ['-DKIT_NATIVE=1', '-g', '-O0', '-fsanitize=address,undefined',
                                              '-fno-omit-frame-pointer', '-w', '-ffunction-sections', '-fdata-sections',
                                              '-include', os.path.join(HARNESS, 'prelude.h')]
    objs = []
    log = []

    def cc(cmd):
        r = subprocess.run(cmd, capture_output=True, text=True)
        log.append(' '.join(cmd))
        if r.returncode != 0:
            raise RuntimeError('native build failed: %s\n%s' % (' '.join(cmd), r.stderr[-2500:]))

    for i, u in enumerate(q.units):
        path = run.resolve(u)
        o = os.path.join(rdir, 'u%d.o' % i)
        own = ['-D' + d for d in u.split('|', 1)[1].split(',')] if '|' in u else []
        cc(['clang'] + common + own + ['-D%s=%s' % kv for kv in defs.items()] + ['-c', path, '-o', o])
        if q.remove_bodies and (u.startswith('repo:') or u.startswith('work:') or u.startswith('kit:kitfull.c')):
            # the kit model (strong symbol) replaces the real body, as goto-instrument did for CBMC
            cc(['objcopy'] + ['--weaken-symbol=%s' % f for f in q.remove_bodies] + [o])
        objs.append(o)
    hsrc = q.harness if os.path.isabs(q.harness) else os.path.join(HARNESS, q.harness)
    cxx = q.cxx_replay
    if cxx is None:
        cxx = '"wide.h"' in open(hsrc).read()
    ho = os.path.join(rdir, 'h.o')
    if cxx:
        cc(['clang++', '-x', 'c++', '-std=c++17', '-fpermissive'] + common + ['-D%s=%s' % kv for kv in hdefs.items()] + ['-c', hsrc, '-o', ho])
    else:
        cc(['clang'] + common + ['-D%s=%s' % kv for kv in hdefs.items()] + ['-c', hsrc, '-o', ho])
    rt = os.path.join(rdir, 'rt.o')
    cc(['clang'] + common + ['-c', os.path.join(HARNESS, 'replay_rt.c'), '-o', rt])
    io = os.path.join(rdir, 'inputs.o')
    cc(['clang', '-c', src, '-o', io])
    exe = os.path.join(rdir, 'replay')
    link = ['clang++' if cxx else 'clang', '-fsanitize=address,undefined', '-Wl,--gc-sections', '-Wl,--allow-multiple-definition'] + objs + [ho, rt, io]
    r = subprocess.run(link + ['-o', exe, '-lm', '-ldl'], capture_output=True, text=True)
    log.append(' '.join(link))
    if r.returncode != 0:
        # functions of units that are not part of this harness (unreachable under CBMC: assert-false bodies there):
        # give them aborting stubs so that the native link succeeds
        und = sorted(set(re.findall(r"undefined reference to `([A-Za-z_][A-Za-z_0-9]*)'", r.stderr)))
        if not und:
            raise RuntimeError('native link failed:\n' + r.stderr[-2500:])
        stubs = os.path.join(rdir, 'stubs.c')
        with open(stubs, 'w') as f:
            f.write('#include <stdio.h>\n#include <stdlib.h>\n')
            for u in und:
                f.write('void %s(void) { fprintf(stderr, "REPLAY: reached function %s which is not linked into this harness\\n"); abort(); }\n' % (u, u))
        so = os.path.join(rdir, 'stubs.o')
        cc(['clang', '-w', '-c', stubs, '-o', so])
        cc(link + [so, '-o', exe, '-lm', '-ldl'])
    with open(os.path.join(rdir, 'build.log'), 'w') as f:
        f.write('\n'.join(log) + '\n')
    env = dict(os.environ, ASAN_OPTIONS='exitcode=99:detect_leaks=0:abort_on_error=0:detect_odr_violation=0', UBSAN_OPTIONS='print_stacktrace=0')
    try:
        r = subprocess.run([exe], capture_output=True, text=True, timeout=120, env=env, errors='replace')
        rc, out = r.returncode, (r.stdout + r.stderr)
    except subprocess.TimeoutExpired:
        rc, out = -999, 'timeout'
    with open(os.path.join(rdir, 'replay.out'), 'w') as f:
        f.write(out)
    for o in objs + [ho, rt, io]:
        try:
            os.remove(o)
        except OSError:
            pass
    tail = out[-1200:]
    if 'REPLAY-ASSERT-FAILED' in out:
        outcome = 'reproduced'
        detail = [l for l in out.splitlines() if 'REPLAY-ASSERT-FAILED' in l][0]
    elif rc == 99 or 'AddressSanitizer' in out:
        outcome = 'reproduced'
        detail = 'AddressSanitizer: ' + ''.join(re.findall(r'ERROR: AddressSanitizer: ([^\n]*)', out)[:1])
    elif rc < 0 and rc != -999:
        outcome = 'reproduced'
        detail = 'crashed with signal %d' % -rc
    elif rc == 77:
        outcome = 'replay-infrastructure-error'
        detail = 'a harness assumption did not hold on the recorded inputs (trace parsing lost a value?)'
    elif rc == -999:
        outcome = 'reproduced'
        detail = 'native run did not terminate in 120 s'
    elif rc == 0:
        outcome = 'not-reproduced'
        detail = 'native run of the same harness on the recorded inputs satisfied every assertion'
    else:
        outcome = 'replay-infrastructure-error'
        detail = 'exit code %d' % rc
    ub = re.findall(r'runtime error: ([^\n]*)', out)[:3]
    return {'outcome': outcome, 'detail': detail, 'exit': rc, 'ubsan': ub, 'tail': tail if outcome != 'not-reproduced' else ''}


def replay_case(path):
    """re-run a stored case.json (bin/check --replay)"""
    import vf
    case = json.load(open(path))
    run = vf.Run(case['property'], 'replay')
    try:
        q = vf.Query(name=case['query'], harness=case['harness'], units=case['units'], defs=case['defs'],
                     unit_defs=case.get('unit_defs', {}), remove_bodies=case.get('remove_bodies', []),
                     cxx_replay=case.get('cxx'))
        rdir = os.path.dirname(os.path.abspath(path))
        rr = build_and_run_replay(run, q, case, rdir)
        print(json.dumps(rr, indent=1))
        return 1 if rr['outcome'] == 'reproduced' else 0
    finally:
        run.cleanup()
