/* self-test of the R11 work-around: the top-bit form must be decided correctly by the installed cbmc */
typedef struct s *sexp; long nondet_long(void);
#define VERIF_NEGP(a) ((((unsigned long)(a)) >> 63) != 0)
int main(void) {
  long v = nondet_long(); __CPROVER_assume(v >= 0); sexp s = (sexp)v;
  long w = nondet_long(); __CPROVER_assume(w < 0); sexp t = (sexp)w;
  __CPROVER_assert(!VERIF_NEGP(s), "non-negative tagged word is not negative");
  __CPROVER_assert(VERIF_NEGP(t), "negative tagged word is negative");
  sexp c = (sexp)3, d = (sexp)(-5L);
  __CPROVER_assert(!VERIF_NEGP(c) && VERIF_NEGP(d), "constants");
  __CPROVER_assert((((unsigned long)c) & 1) == 1 && (((long)((unsigned long)d & ~1UL)) / 2) == -3, "constant tag test and unboxing");
  return 0;
}
