/* self-test of R12: the low bits of pointer_offset equal the low bits of the integer value, for
   integer-cast pointers of every value and for object addresses */
#include <stdlib.h>
unsigned long nondet_ul(void);
int main(void) {
  unsigned long v = nondet_ul();
  void *p = (void *)v;
  __CPROVER_assert((((unsigned long)__CPROVER_POINTER_OFFSET(p)) & 0xFF) == (v & 0xFF), "int-cast pointer: tag bits via offset");
  char *q = malloc(24); __CPROVER_assume(q != 0);
  __CPROVER_assert((((unsigned long)__CPROVER_POINTER_OFFSET(q + 5)) & 0xFF) == (((unsigned long)(q + 5)) & 0xFF), "object pointer: tag bits via offset");
  void *c = (void *)(-9L);
  __CPROVER_assert((((unsigned long)__CPROVER_POINTER_OFFSET(c)) & 0xFF) == 0xF7, "negative constant");
  return 0;
}
