"""Driver library: goto-cc builds of the real chibi-scheme units from /repo's working tree,
CBMC portfolio runner, trace -> native replay, evidence writer, known-findings handling.

Everything is rebuilt from /repo on every run.  Scratch lives in /verif/.work/<run> and is
removed at exit.
"""
import os, sys, re, json, time, shutil, subprocess, threading, hashlib, signal, resource, tempfile
from dataclasses import dataclass, field
from concurrent.futures import ThreadPoolExecutor

VERIF = os.path.dirname(os.path.dirname(os.path.abspath(__file__)))
REPO = os.environ.get('VERIF_REPO', '/repo')
HARNESS = os.path.join(VERIF, 'harness')
NCPU = os.cpu_count() or 4

BASE_DEFS = ['-DSEXP_USE_DL=1', '-DSEXP_USE_INTTYPES=0', '-DSEXP_USE_NTPGETTIME=1', '-DCHIBI_VERIF=1', '-DCHIBI_VERIF_MARK_STACK_COUNT=2']


def inc_flags():
    return ['-I', os.path.join(REPO, 'include'), '-I', os.path.join(HARNESS, 'include'), '-I', HARNESS, '-iquote', REPO]


BACKENDS = {
    'minisat': [],
    'cadical': ['--sat-solver', 'cadical'],
    'kissat': ['--external-sat-solver', 'kissat'],
    'z3': ['--z3'],
    'cvc5': ['--cvc5'],
}

# property classes (by cbmc property id) that make a query fail
HARD_CLASSES = ('assertion', 'pointer_dereference', 'array_bounds', 'unwind', 'division-by-zero',
                'pointer_primitives', 'precondition', 'recursion', 'no-body', 'memory-leak')
# classes that are reported separately (standard-level UB which needs triage by replay)
SOFT_CLASSES = ('overflow', 'undefined-shift', 'pointer_arithmetic', 'pointer', 'NaN', 'enum-range-check',
                'float-overflow', 'conversion')


@dataclass
class Query:
    name: str
    harness: str                       # file under harness/ (or absolute path)
    units: list                        # 'repo:<relpath>', 'kit:<file>', 'abs:<path>'
    defs: dict = field(default_factory=dict)       # -D for the harness
    unit_defs: dict = field(default_factory=dict)  # -D for every unit (real + kit) and harness
    unwind: int = 4
    unwindset: dict = field(default_factory=dict)
    flags: list = field(default_factory=list)
    cap: int = 120
    backends: list = field(default_factory=lambda: ['minisat', 'cadical'])
    cuts: list = field(default_factory=list)       # functions proven unreachable (R5)
    remove_bodies: list = field(default_factory=list)  # real functions replaced by kit models
    note: str = ''
    mem_gb: int = 20
    functions: list = field(default_factory=list)  # real functions encoded (for evidence)
    entry: str = 'harness'
    object_bits: int = 12
    cxx_replay: bool = None
    slow: bool = False                  # heavy in memory: limited concurrency


class Run:
    def __init__(self, prop, tier, seed=0):
        self.prop = prop
        self.tier = tier
        self.seed = seed
        self.t0 = time.time()
        os.makedirs(os.path.join(VERIF, '.work'), exist_ok=True)
        self.work = tempfile.mkdtemp(prefix='%s-%s-' % (prop, tier), dir=os.path.join(VERIF, '.work'))
        self.lock = threading.Lock()
        self.unit_cache = {}
        self.unit_locks = {}
        self.results = []
        self.slots = threading.BoundedSemaphore(int(os.environ.get('VERIF_JOBS', NCPU)))
        self.heavy = threading.BoundedSemaphore(int(os.environ.get('VERIF_HEAVY', 3)))
        self.slot_lock = threading.Lock()
        self.unit_hashes = {}
        self.src_dirs = {}
        self.children = set()
        self.partial = False      # --only runs do not overwrite the committed evidence file
        for sig in (signal.SIGTERM, signal.SIGINT, signal.SIGHUP):
            try:
                signal.signal(sig, self._on_signal)
            except Exception:
                pass
        self.extra_assumptions = []
        self.outside = []
        self.violations = []
        self.known_printed = []
        self.suspects = []
        self.soft = []

    def kill_children(self):
        for pid in list(self.children):
            try:
                os.killpg(pid, signal.SIGKILL)
            except Exception:
                pass

    def _on_signal(self, signum, frame):
        # a killed check must not leave solver processes (and their multi-GB temporary files) behind
        self.kill_children()
        shutil.rmtree(self.work, ignore_errors=True)
        os._exit(130)

    def cleanup(self):
        self.kill_children()
        shutil.rmtree(self.work, ignore_errors=True)

    # ---------------------------------------------------------------- builds
    def resolve(self, unit):
        unit = unit.split('|', 1)[0]
        kind, _, path = unit.partition(':')
        if kind == 'repo':
            return os.path.join(REPO, path)
        if kind == 'kit':
            return os.path.join(HARNESS, path)
        if kind == 'abs':
            return path
        if kind == 'work':
            return os.path.join(self.work, path)
        raise ValueError(unit)

    def goto_cc_unit(self, unit, unit_defs):
        key = (unit, tuple(sorted(unit_defs.items())))
        with self.lock:
            lk = self.unit_locks.setdefault(key, threading.Lock())
        with lk:
            if key in self.unit_cache:
                return self.unit_cache[key]
            src = self.resolve(unit)
            h = hashlib.sha256(open(src, 'rb').read()).hexdigest()
            self.unit_hashes[unit] = h[:16]
            src = self.cbmc_source(unit, src)
            out = os.path.join(self.work, 'u_%s.gb' % hashlib.md5(repr(key).encode()).hexdigest()[:12])
            extra_inc = ['-I', self.src_dirs[src]] if src in self.src_dirs else []
            own = ['-D' + d for d in unit.split('|', 1)[1].split(',')] if '|' in unit else []
            cmd = ['goto-cc'] + inc_flags() + extra_inc + BASE_DEFS + own + ['-D%s=%s' % kv for kv in unit_defs.items()] + \
                  ['-include', os.path.join(HARNESS, 'prelude.h'), '-c', src, '-o', out]
            r = subprocess.run(cmd, capture_output=True, text=True)
            if r.returncode != 0:
                raise RuntimeError('goto-cc failed for %s:\n%s' % (unit, r.stderr[-3000:]))
            self.unit_cache[key] = out
            return out

    def cbmc_source(self, unit, src):
        """R11 work-around for a cbmc 6.11 simplifier bug: `(sexp_sint_t)<ident> < 0` on a tagged
        pointer is re-expressed as a test of the top bit (same value on every input).  The copy keeps
        the original path and line numbers through a #line directive."""
        if not (unit.startswith('repo:') or unit.startswith('work:')):
            return src
        txt = open(src, errors='replace').read()
        new, n = SIGN_RE.subn(lambda m: 'VERIF_NEGP(%s)' % m.group(1), txt)
        residual = [l.strip()[:120] for l in new.splitlines() if RESIDUAL_RE.search(l) and '#define' not in l]
        with self.lock:
            if n:
                self.extra_assumptions.append('R11: %d sign tests of the form (sexp_sint_t)x < 0 in %s re-expressed as top-bit tests '
                                              '(cbmc simplifier bug work-around; semantics identical)' % (n, unit))
            for l in residual:
                self.extra_assumptions.append('R11-residual: possibly mis-simplified pointer sign test left in %s: %s' % (unit, l))
        if not n:
            return src
        d = os.path.join(self.work, 'src')
        os.makedirs(d, exist_ok=True)
        out = os.path.join(d, re.sub(r'[^A-Za-z0-9_.]', '_', unit.split(':', 1)[1]))
        with open(out, 'w') as f:
            f.write('#line 1 "%s"\n' % src)
            f.write(new)
        self.src_dirs[out] = os.path.dirname(src)
        return out

    def function_names(self, gb):
        r = subprocess.run(['goto-instrument', '--list-goto-functions', gb], capture_output=True, text=True)
        out = []
        for line in r.stdout.splitlines():
            line = line.strip()
            if line and not line.startswith('Reading'):
                out.append(line.split(' ', 1)[0])
        return out

    def build_query(self, q, witness=True):
        if os.environ.get('VERIF_CAP_MAX'):      # screening runs: lower every cap (capped queries are reported inconclusive as usual)
            q.cap = min(q.cap, int(os.environ['VERIF_CAP_MAX']))
        qdir = os.path.join(self.work, 'q_' + re.sub(r'[^A-Za-z0-9_.-]', '_', q.name)[:80] + '_' + hashlib.sha1(q.name.encode()).hexdigest()[:8])
        os.makedirs(qdir, exist_ok=True)
        ud = dict(q.unit_defs)
        gbs = [self.goto_cc_unit(u, ud) for u in q.units]
        hsrc = q.harness if os.path.isabs(q.harness) else os.path.join(HARNESS, q.harness)
        hgb = os.path.join(qdir, 'h.gb')
        defs = dict(ud); defs.update(q.defs)
        cmd = ['goto-cc'] + inc_flags() + BASE_DEFS + ['-D%s=%s' % kv for kv in defs.items()] + \
              (['-DWITNESS'] if witness else []) + \
              ['-include', os.path.join(HARNESS, 'prelude.h'), '-c', hsrc, '-o', hgb]
        r = subprocess.run(cmd, capture_output=True, text=True)
        if r.returncode != 0:
            raise RuntimeError('goto-cc failed for harness %s:\n%s' % (q.harness, r.stderr[-3000:]))
        allgb = os.path.join(qdir, 'all.gb')
        real = gbs
        if q.remove_bodies:
            # strip real bodies so that kit models (linked afterwards) take their place
            real = []
            for i, g in enumerate(gbs):
                u = q.units[i]
                if u.startswith('kit:') and not u.startswith('kit:kitfull.c'):
                    real.append(g)      # kit units hold the models: keep their bodies
                    continue
                o = os.path.join(qdir, 'rb%d.gb' % i)
                cmd = ['goto-instrument'] + sum([['--remove-function-body', f] for f in q.remove_bodies], []) + [g, o]
                r = subprocess.run(cmd, capture_output=True, text=True)
                if r.returncode != 0:
                    raise RuntimeError('goto-instrument remove-function-body failed:\n' + r.stderr[-2000:] + r.stdout[-2000:])
                real.append(o)
        r = subprocess.run(['goto-cc'] + real + [hgb, '-o', allgb], capture_output=True, text=True)
        if r.returncode != 0:
            raise RuntimeError('link failed for %s:\n%s' % (q.name, r.stderr[-3000:]))
        # (R5) cut functions lose their bodies; then every chibi function that has no body (cut, or simply not
        # linked into this harness) gets an assert-false-assume-false body, so that reaching code outside the
        # encoded units is a reported failure instead of a silently nondeterministic call
        if q.cuts:
            cut = os.path.join(qdir, 'cut.gb')
            rx = '|'.join(q.cuts)
            # bodies of cut functions are dropped first, then regenerated as assert-false-assume-false
            names = self.function_names(allgb)
            import re as _re
            crx = _re.compile('^(%s)$' % rx)
            hit = [n for n in names if crx.match(n)]
            cur = allgb
            if hit:
                o = os.path.join(qdir, 'cut0.gb')
                cmd = ['goto-instrument'] + sum([['--remove-function-body', f] for f in hit], []) + [cur, o]
                r = subprocess.run(cmd, capture_output=True, text=True)
                if r.returncode != 0:
                    raise RuntimeError('goto-instrument cut failed:\n' + r.stderr[-2000:] + r.stdout[-2000:])
                cur = o
            allgb = cur
        nb = os.path.join(qdir, 'nobody.gb')
        cmd = ['goto-instrument', '--generate-function-body', '(sexp_|json_|analyze|generate|simplify|finalize|kit_).*',
               '--generate-function-body-options', 'assert-false-assume-false', allgb, nb]
        r = subprocess.run(cmd, capture_output=True, text=True)
        if r.returncode != 0:
            raise RuntimeError('goto-instrument generate-function-body failed:\n' + r.stderr[-2000:] + r.stdout[-2000:])
        allgb = nb
        return qdir, allgb

    # ---------------------------------------------------------------- cbmc
    def cbmc_cmd(self, q, allgb, backend):
        cmd = ['cbmc', allgb, '--function', q.entry, '--unwind', str(q.unwind), '--object-bits', str(q.object_bits),
               '--no-malloc-may-fail', '--drop-unused-functions', '--trace', '--trace-hex',
               '--pointer-overflow-check', '--max-field-sensitivity-array-size', '128']
        us = dict(LIBC_UNWIND)
        us.update(q.unwindset)
        cmd += ['--unwindset', ','.join('%s:%d' % kv for kv in us.items())]
        cmd += BACKENDS[backend] + q.flags
        return cmd

    def run_portfolio(self, q, qdir, allgb):
        procs = {}
        nslots = len(q.backends)
        if q.slow:
            self.heavy.acquire()
        with self.slot_lock:          # acquire all slots of a portfolio atomically (no hold-and-wait)
            for _ in range(nslots):
                self.slots.acquire()
        t0 = time.time()
        try:
            for b in q.backends:
                out = open(os.path.join(qdir, 'out.%s.txt' % b), 'w')
                tf = os.path.join(qdir, 'time.%s.txt' % b)
                cmd = ['/usr/bin/time', '-f', '%M %e', '-o', tf] + self.cbmc_cmd(q, allgb, b)
                mem = q.mem_gb << 30

                def pre(mem=mem):
                    os.setsid()
                    resource.setrlimit(resource.RLIMIT_AS, (mem, mem))
                # cbmc writes multi-GB CNF files for the external solver into TMPDIR and leaves them behind when killed:
                # keep them inside the run's scratch directory, which is removed at exit
                tmpd = os.path.join(qdir, 'tmp.' + b)
                os.makedirs(tmpd, exist_ok=True)
                procs[b] = (subprocess.Popen(cmd, stdout=out, stderr=subprocess.STDOUT, preexec_fn=pre,
                                             env=dict(os.environ, TMPDIR=tmpd)), out, tf)
                with self.lock:
                    self.children.add(procs[b][0].pid)
            winner = None
            verdicts = {}
            while procs and winner is None and time.time() - t0 < q.cap:
                time.sleep(0.2)
                for b, (p, out, tf) in list(procs.items()):
                    rc = p.poll()
                    if rc is None:
                        continue
                    out.close()
                    txt = open(out.name, errors='replace').read()
                    del procs[b]
                    v = parse_cbmc(txt)
                    verdicts[b] = v
                    if v['status'] in ('success', 'failed'):
                        winner = b
                        break
            for b, (p, out, tf) in procs.items():
                try:
                    os.killpg(p.pid, signal.SIGKILL)
                except Exception:
                    pass
                p.wait()
                out.close()
            for b in q.backends:
                shutil.rmtree(os.path.join(qdir, 'tmp.' + b), ignore_errors=True)
        finally:
            for _ in range(nslots):
                self.slots.release()
            if q.slow:
                self.heavy.release()
        dt = time.time() - t0
        rss = None
        if winner:
            try:
                rss = int(open(os.path.join(qdir, 'time.%s.txt' % winner)).read().split()[0])
            except Exception:
                pass
            res = verdicts[winner]
            res['backend'] = winner
        else:
            errs = {b: v.get('error', '') for b, v in verdicts.items()}
            res = {'status': 'inconclusive', 'backend': None, 'props': {}, 'trace': '',
                   'error': ('cap %ds hit' % q.cap) if time.time() - t0 >= q.cap else 'no verdict: %r' % errs}
        res['seconds'] = round(dt, 2)
        res['rss_kb'] = rss
        return res

    def run_query(self, q):
        rec = {'query': q.name, 'harness': q.harness, 'defs': q.defs, 'unwind': q.unwind,
               'unwindset': q.unwindset, 'cap_s': q.cap, 'note': q.note}
        try:
            qdir, allgb = self.build_query(q)
            res = self.run_portfolio(q, qdir, allgb)
        except Exception as e:  # build problems are failures of the machinery, reported loudly
            rec.update(status='error', error=str(e)[-2000:], seconds=0)
            with self.lock:
                self.results.append(rec)
            return rec
        rec.update(backend=res['backend'], seconds=res['seconds'], rss_kb=res.get('rss_kb'))
        props = res.get('props', {})
        nprops = len(props)
        failed = [p for p, (st, desc) in props.items() if st == 'FAILURE']
        witness = [p for p in failed if 'WITNESS' in props[p][1]]
        hard = [p for p in failed if p not in witness and prop_class(p) in HARD_CLASSES]
        soft = [p for p in failed if p not in witness and p not in hard]
        rec['n_properties'] = nprops
        if res['status'] == 'inconclusive':
            rec.update(status='inconclusive', error=res.get('error'))
        elif not witness and not hard:
            # nothing reachable: vacuous harness
            rec.update(status='vacuous', error='witness assertion not violated: harness never reaches its end')
        elif hard:
            rec.update(status='candidate', failed=[(p, props[p][1]) for p in hard])
            self.handle_candidate(q, qdir, res, hard, props, rec)
        else:
            rec.update(status='holds')
        if soft:
            rec['soft_failed'] = [(p, props[p][1]) for p in soft][:20]
        with self.lock:
            self.results.append(rec)
        return rec

    # ---------------------------------------------------------------- candidates / replay
    def handle_candidate(self, q, qdir, res, hard, props, rec):
        from replay import build_and_run_replay, extract_inputs
        trace = res.get('traces', {})
        # pick the first hard failure that has a trace
        target = None
        for p in hard:
            if p in trace:
                target = p
                break
        inputs = extract_inputs(trace.get(target, '')) if target else []
        h = hashlib.sha256((q.name + repr(inputs)).encode()).hexdigest()[:10]
        rdir = os.path.join(VERIF, 'replay', 'out', self.prop, '%s-%s' % (re.sub(r'[^A-Za-z0-9_.-]', '_', q.name), h))
        os.makedirs(rdir, exist_ok=True)
        case = {'property': self.prop, 'query': q.name, 'harness': q.harness, 'defs': q.defs, 'unit_defs': q.unit_defs,
                'units': q.units, 'failed_property': target, 'failed_desc': props[target][1] if target else None,
                'all_failed': [(p, props[p][1]) for p in hard], 'inputs': inputs,
                'remove_bodies': q.remove_bodies, 'cxx': q.cxx_replay}
        with open(os.path.join(rdir, 'trace.txt'), 'w') as f:
            f.write(trace.get(target, '') if target else '')
        try:
            rr = build_and_run_replay(self, q, case, rdir)
        except Exception as e:
            rr = {'outcome': 'replay-infrastructure-error', 'detail': str(e)[-1500:]}
        case['replay'] = rr
        json.dump(case, open(os.path.join(rdir, 'case.json'), 'w'), indent=1)
        rec['replay'] = rr
        rec['replay_path'] = os.path.join(rdir, 'case.json')
        if rr['outcome'] == 'not-reproduced':
            rec['status'] = 'encoding_suspect'
            with self.lock:
                self.suspects.append(rec)
            return
        # reproduced, or replay could not be run (reported, flagged)
        kf = match_known(self.prop, q.name, [props[p][1] for p in hard])
        if kf:
            rec['status'] = 'known_finding'
            rec['known'] = kf['id']
            with self.lock:
                if kf['id'] not in self.known_printed:
                    self.known_printed.append(kf['id'])
                    print('KNOWN-FINDING: property=%s %s' % (self.prop, kf['what']), flush=True)
            return
        rec['status'] = 'violation'
        with self.lock:
            self.violations.append(rec)
        print('VIOLATION property=%s replay=%s' % (self.prop, rec['replay_path']), flush=True)
        print('  query=%s failed=%s' % (q.name, '; '.join('%s: %s' % (p, props[p][1]) for p in hard[:4])), flush=True)

    # ---------------------------------------------------------------- top level
    def run_all(self, queries, jobs=None):
        jobs = jobs or int(os.environ.get('VERIF_QJOBS', max(2, NCPU // 2)))
        with ThreadPoolExecutor(max_workers=jobs) as ex:
            futs = [ex.submit(self.run_query, q) for q in queries]
            for f in futs:
                r = f.result()
                print('  [%s] %-60s %-14s %6.1fs %s' % (self.prop, r['query'][:60], r['status'], r.get('seconds', 0),
                                                         r.get('backend') or ''), flush=True)
                if r['status'] in ('error', 'vacuous'):
                    print('    ' + (r.get('error') or '')[-600:].replace('\n', '\n    '), flush=True)

    def write_evidence(self, queries, functions, bounds, assumptions, outside, extra=None):
        res = self.results
        holds = [r for r in res if r['status'] == 'holds']
        incon = [r for r in res if r['status'] == 'inconclusive']
        errors = [r for r in res if r['status'] in ('error', 'vacuous')]
        samples = []
        for r in res[:6]:
            samples.append({k: r.get(k) for k in ('query', 'harness', 'defs', 'unwind', 'status', 'backend', 'seconds', 'rss_kb', 'n_properties')})
        for r in res:
            if r['status'] in ('violation', 'known_finding', 'encoding_suspect'):
                samples.append({k: r.get(k) for k in ('query', 'status', 'failed', 'replay', 'replay_path')})
        cov = {
            'evaluations': len(res),
            'distinct_nontrivial': len({r['query'] for r in res if r['status'] in ('holds', 'violation', 'known_finding')}),
            'rule': 'one evaluation = one solver query (harness x configuration) over the real code compiled from /repo; '
                    'non-trivial = the witness twin assertion at the end of the harness was violated (harness reachable) '
                    'and every other property got a verdict inside the cap',
            'samples': samples,
            'traces_validated_against_impl': len([r for r in res if 'replay' in r]),
            # bounded model checking has no explicit state graph; the two generic model-checking counters are filled with
            # the closest measured quantities: verification conditions (assertions, pointer/bounds/unwinding checks)
            # decided by the solver, and solver queries discharged
            'states': max(1, sum(r.get('n_properties', 0) for r in res)),
            'transitions': max(1, len([r for r in res if r['status'] in ('holds', 'violation', 'known_finding', 'encoding_suspect')])),
            'explanation': 'states = verification conditions decided by the SAT back end over all queries of this run; transitions = solver queries that reached a verdict; '
                           'each query covers every assignment of its symbolic inputs within the stated bounds',
            'queries_total': len(res), 'queries_unsat': len(holds), 'queries_inconclusive': len(incon),
            'queries_error': len(errors),
            'inconclusive': [r['query'] for r in incon],
            'errors': [{'query': r['query'], 'error': (r.get('error') or '')[-400:]} for r in errors],
            'properties_checked_total': sum(r.get('n_properties', 0) for r in res),
            'solver_time_s': round(sum(r.get('seconds', 0) for r in res), 1),
            'max_rss_kb': max([r.get('rss_kb') or 0 for r in res] + [0]),
            'functions_encoded': functions,
            'units': self.unit_hashes,
            'bounds': bounds,
            'outside_claim': outside,
            'queries': [{k: r.get(k) for k in ('query', 'status', 'backend', 'seconds', 'rss_kb', 'n_properties', 'unwind')} for r in res],
            'soft_ub_candidates': [{'query': r['query'], 'props': r['soft_failed'][:5]} for r in res if r.get('soft_failed')],
            'encoding_suspects': [r['query'] for r in res if r['status'] == 'encoding_suspect'],
            'known_findings_hit': self.known_printed,
            'exhaustive': False,
        }
        if extra:
            cov.update(extra)
        ev = {
            'property_id': self.prop, 'tier': self.tier, 'seed': self.seed, 'level': 'model_checking',
            'coverage': cov,
            'assumptions': assumptions + self.extra_assumptions,
            'wall_s': round(time.time() - self.t0, 1),
            'violations': len(self.violations),
        }
        evdir = os.path.join(VERIF, 'evidence') if not self.partial else os.path.join(VERIF, '.work', 'evidence-partial')
        os.makedirs(evdir, exist_ok=True)
        with open(os.path.join(evdir, self.prop + '.json'), 'w') as f:
            json.dump(ev, f, indent=1)
        return ev

    def exit_code(self):
        if self.violations:
            return 1
        bad = [r for r in self.results if r['status'] in ('error', 'vacuous')]
        if bad:
            print('CHECK-BROKEN property=%s: %d queries could not be built or were vacuous' % (self.prop, len(bad)))
            return 2
        return 0


# loops of harness/libc_models.c: word loops up to 40 words, byte loops up to 72 bytes (checked by unwinding assertions)
LIBC_UNWIND = {'kit_ctx_full.0': 64, 'kit_any_bytes.0': 41, 'kit_vector.0': 50, 'memmove.0': 41, 'memmove.1': 41, 'memmove.2': 73, 'memmove.3': 73, 'memcpy.0': 41, 'memcpy.1': 73,
               'memset.0': 41, 'memset.1': 73}
SIGN_RE = re.compile(r'\(sexp_sint_t\) ?([A-Za-z_][A-Za-z_0-9]*) < 0')
RESIDUAL_RE = re.compile(r'\(sexp_sint_t\) ?\(?[A-Za-z_][A-Za-z_0-9]*\)? *(<|<=|>|>=) *0(?![0-9x.])')
PROP_RE = re.compile(r'^\[([^\]]+)\] (?:line \d+ )?(.*): (SUCCESS|FAILURE|UNKNOWN|ERROR)\s*$')


def prop_class(pid):
    # ids look like  func.pointer_dereference.3 / func.assertion.1 / func.unwind.0 / func.overflow.2
    parts = pid.split('.')
    if len(parts) >= 2:
        return parts[-2]
    return pid


def parse_cbmc(txt):
    props = {}
    traces = {}
    status = None
    cur = None
    buf = []
    for line in txt.splitlines():
        m = PROP_RE.match(line)
        if m:
            props[m.group(1)] = (m.group(3), m.group(2))
            continue
        if line.startswith('Trace for '):
            if cur:
                traces[cur] = '\n'.join(buf)
            cur = line[len('Trace for '):].rstrip(':').strip()
            buf = []
            continue
        if line.startswith('** ') and cur:
            traces[cur] = '\n'.join(buf)
            cur = None
        if cur is not None:
            buf.append(line)
        if line.startswith('VERIFICATION SUCCESSFUL'):
            status = 'success'
        elif line.startswith('VERIFICATION FAILED'):
            status = 'failed'
    if cur:
        traces[cur] = '\n'.join(buf)
    if status is None:
        err = txt[-800:]
        return {'status': 'error', 'props': props, 'traces': traces, 'error': err}
    return {'status': status, 'props': props, 'traces': traces}


# ---------------------------------------------------------------- known findings
def load_known():
    p = os.path.join(VERIF, 'known-findings.jsonl')
    out = []
    if os.path.exists(p):
        for line in open(p):
            line = line.strip()
            if line and not line.startswith('#'):
                out.append(json.loads(line))
    return out


def match_known(prop, qname, descs):
    for k in load_known():
        if k.get('status') != 'known' or k.get('property') != prop:
            continue
        if not re.search(k['query_re'], qname):
            continue
        if all(re.search(k['desc_re'], d) for d in descs):
            return k
    return None


def known_excludes(prop):
    """-D defines that exclude exactly the input classes of listed known (unfixed) findings."""
    d = {}
    for k in load_known():
        if k.get('status') == 'known' and k.get('property') == prop and k.get('exclude_define'):
            d[k['exclude_define']] = 1
    return d


def tier_from_env(argv):
    tier = os.environ.get('VERIF_TIER') or 'quick'
    if '--tier' in argv:
        tier = argv[argv.index('--tier') + 1]
    return tier
